import PlatypusModel.Model.Restart
import PlatypusModel.Props.C08Gen

/-!
C08 / C14 for runs with adaptive time continuation (eps-NSGA-II, or any NSGA-II-style algorithm with the extension added):
the restart's injection loop, its evaluations, the population size it leaves and the counter, for **every** stream of
offspring counts (variator and restart mutator), every sequence of restart decisions and archive sizes.
-/
namespace Platypus

theorem offLoopF_of_le (sizes : Nat → Nat) (n fuel have_ pos : Nat) (h : n ≤ have_) :
    offLoopF sizes n fuel have_ pos = (have_, pos) := by
  cases fuel with
  | zero => rfl
  | succ f => simp [offLoopF, h]

theorem newSize_cases (c : RCfg) (a : Nat) :
    (c.ratio * a < c.minPop ∧ newSize c a = c.minPop) ∨
    (c.minPop ≤ c.ratio * a ∧ c.maxPop < c.ratio * a ∧ newSize c a = c.maxPop) ∨
    (c.minPop ≤ c.ratio * a ∧ c.ratio * a ≤ c.maxPop ∧ newSize c a = c.ratio * a) := by
  unfold newSize
  by_cases h1 : c.ratio * a < c.minPop
  · left; simp [h1]
  · by_cases h2 : c.ratio * a > c.maxPop
    · right; left; simp [h1, h2]; omega
    · right; right; simp [h1, h2]; omega

/-- **the new size is clamped**: within `[min_population_size, max_population_size]` whenever that interval is not empty -/
theorem newSize_bounds (c : RCfg) (a : Nat) (h : c.minPop ≤ c.maxPop) : c.minPop ≤ newSize c a ∧ newSize c a ≤ c.maxPop := by
  rcases newSize_cases c a with ⟨_, h2⟩ | ⟨_, _, h2⟩ | ⟨_, _, h2⟩ <;> omega

theorem newSize_pos (c : RCfg) (a : Nat) (h1 : 1 ≤ c.minPop) (h2 : 1 ≤ c.maxPop) : 1 ≤ newSize c a := by
  rcases newSize_cases c a with ⟨_, h⟩ | ⟨_, _, h⟩ | ⟨_, _, h⟩ <;> omega

/-- **what a restart does to the bookkeeping**: the population is the archive plus the injected solutions and
`population_size` is set to its length; it has at least the new size (the injection loop is never stopped by its fuel when the
mutator returns at least one offspring per call); the counter grows by exactly the number of injected solutions; the
variator is not called -/
theorem restart_spec (c : RCfg) (msizes : Nat → Nat) (hs : ∀ i, 1 ≤ msizes i) (a : Nat) (s : RState) :
    (restart c msizes a s).pop = (restart c msizes a s).popSize ∧ a ≤ (restart c msizes a s).pop ∧
    newSize c a ≤ (restart c msizes a s).pop ∧
    (restart c msizes a s).nfe = s.nfe + ((restart c msizes a s).pop - a) ∧ (restart c msizes a s).pos = s.pos ∧
    s.mpos ≤ (restart c msizes a s).mpos := by
  obtain ⟨m, _, h2, h1, _, _⟩ := offLoopF_spec msizes (newSize c a) (newSize c a) a s.mpos
  have hr := offLoopF_reaches msizes hs (newSize c a) (newSize c a) a s.mpos (by omega)
  simp only [restart]
  refine ⟨trivial, by omega, hr, trivial, trivial, by omega⟩

/-- an archive that already has the new size (or more) becomes the population as it is: nothing is mutated, nothing evaluated -/
theorem restart_no_injection (c : RCfg) (msizes : Nat → Nat) (a : Nat) (s : RState) (h : newSize c a ≤ a) :
    restart c msizes a s = { s with pop := a, popSize := a } := by
  simp [restart, offLoopF_of_le msizes (newSize c a) (newSize c a) a s.mpos h]

/-- **overshoot of the injection**: when no mutator call returns more than `b`, fewer than `new_size + b` members -/
theorem restart_overshoot (c : RCfg) (msizes : Nat → Nat) (b : Nat) (hb : ∀ i, msizes i ≤ b) (a : Nat) (s : RState)
    (h : a < newSize c a) : (restart c msizes a s).pop < newSize c a + b := by
  simp only [restart]
  exact offLoopF_overshoot msizes b hb (newSize c a) (newSize c a) a s.mpos h

/-- **with a mutation operator (one offspring per call, the documented requirement)** the population after a restart has
exactly `max(len(archive), new_size)` members and exactly `new_size - len(archive)` evaluations are counted -/
theorem restart_unit (c : RCfg) (msizes : Nat → Nat) (hm : ∀ i, msizes i = 1) (a : Nat) (s : RState) :
    (restart c msizes a s).pop = max a (newSize c a) ∧ (restart c msizes a s).popSize = max a (newSize c a) ∧
    (restart c msizes a s).nfe = s.nfe + (newSize c a - a) := by
  by_cases h : newSize c a ≤ a
  · rw [restart_no_injection c msizes a s h]
    simp only
    refine ⟨by omega, by omega, by omega⟩
  · have h' : a < newSize c a := by omega
    obtain ⟨e1, _, h3, h4, _, _⟩ := restart_spec c msizes (fun i => by rw [hm i]; exact Nat.le_refl 1) a s
    have ho := restart_overshoot c msizes 1 (fun i => by rw [hm i]; exact Nat.le_refl 1) a s h'
    refine ⟨by omega, by omega, by omega⟩

/-- the step of the algorithm itself, with the population size the last restart left -/
theorem rGen_progress (sizes : Nat → Nat) (hs : ∀ i, 1 ≤ sizes i) (s : RState) (hp : 1 ≤ s.popSize) :
    s.nfe + 1 ≤ (rGen sizes s).nfe := by
  have := genStep_progress { style := .whileMerge, popSize := s.popSize, offSize := s.popSize } sizes hs hp hp
    { nfe := s.nfe, pos := s.pos, pop := s.pop }
  simpa [rGen] using this

theorem rGen_pop (sizes : Nat → Nat) (s : RState) (h : s.nfe = 0 ∨ s.pop = s.popSize) :
    (rGen sizes s).pop = s.popSize ∧ (rGen sizes s).popSize = s.popSize ∧ (rGen sizes s).mpos = s.mpos := by
  have := genStep_pop_eq { style := .whileMerge, popSize := s.popSize, offSize := s.popSize } sizes
    { nfe := s.nfe, pos := s.pos, pop := s.pop } (by simp) (by simp) h
  exact ⟨by simpa [rGen] using this, rfl, rfl⟩

/-- what holds between iterations of the run loop: a positive configured size, and a population of exactly that size once
anything has been evaluated -/
def RInv (s : RState) : Prop := 1 ≤ s.popSize ∧ (s.nfe = 0 ∨ s.pop = s.popSize)

/-- **every iteration of the run loop counts at least one evaluation, restart or not** -/
theorem rStep_progress (c : RCfg) (sizes msizes : Nat → Nat) (hs : ∀ i, 1 ≤ sizes i) (hms : ∀ i, 1 ≤ msizes i)
    (arch : Option Nat) (s : RState) (hp : 1 ≤ s.popSize) : s.nfe + 1 ≤ (rStep c sizes msizes arch s).nfe := by
  have h1 := rGen_progress sizes hs s hp
  cases arch with
  | none => simpa [rStep] using h1
  | some a =>
    obtain ⟨_, _, _, h4, _, _⟩ := restart_spec c msizes hms a (rGen sizes s)
    simp only [rStep]
    omega

/-- **C14 across restarts**: after every iteration the population has exactly `population_size` members, whatever the
restart did to that attribute, and the attribute stays positive -/
theorem rStep_inv (c : RCfg) (sizes msizes : Nat → Nat) (hms : ∀ i, 1 ≤ msizes i) (h1 : 1 ≤ c.minPop) (h2 : 1 ≤ c.maxPop)
    (arch : Option Nat) (s : RState) (h : RInv s) :
    RInv (rStep c sizes msizes arch s) ∧ (rStep c sizes msizes arch s).pop = (rStep c sizes msizes arch s).popSize := by
  obtain ⟨g1, g2, _⟩ := rGen_pop sizes s h.2
  cases arch with
  | none =>
    simp only [rStep]
    exact ⟨⟨by rw [g2]; exact h.1, Or.inr (by rw [g1, g2])⟩, by rw [g1, g2]⟩
  | some a =>
    obtain ⟨e1, _, e3, _, _, _⟩ := restart_spec c msizes hms a (rGen sizes s)
    have := newSize_pos c a h1 h2
    simp only [rStep]
    exact ⟨⟨by omega, Or.inr e1⟩, e1⟩

/-- **every reachable state**: for every sequence of restart decisions and archive sizes, every stream of offspring counts:
the invariant holds, the counter has grown by at least one per iteration, and after at least one iteration the population
has exactly `population_size` members -/
theorem rRun_reachable (c : RCfg) (sizes msizes : Nat → Nat) (hs : ∀ i, 1 ≤ sizes i) (hms : ∀ i, 1 ≤ msizes i)
    (h1 : 1 ≤ c.minPop) (h2 : 1 ≤ c.maxPop) (l : List (Option Nat)) (s : RState) (h : RInv s) :
    RInv (rRun c sizes msizes l s) ∧ s.nfe + l.length ≤ (rRun c sizes msizes l s).nfe ∧
    (l ≠ [] → (rRun c sizes msizes l s).pop = (rRun c sizes msizes l s).popSize) := by
  induction l generalizing s with
  | nil => exact ⟨h, by simp [rRun], fun hne => absurd rfl hne⟩
  | cons a rest ih =>
    obtain ⟨hi, hpop⟩ := rStep_inv c sizes msizes hms h1 h2 a s h
    have hp := rStep_progress c sizes msizes hs hms a s h.1
    obtain ⟨i1, i2, i3⟩ := ih (rStep c sizes msizes a s) hi
    simp only [rRun, List.length_cons]
    refine ⟨i1, by omega, fun _ => ?_⟩
    cases rest with
    | nil => simpa [rRun] using hpop
    | cons b r => exact i3 (by simp)

/-! ### the budget theorems of C08 for runs with restarts: `Progress` on the states the run can be in -/

/-- the run loop's iteration as a function on (state, iteration number): the restart decision of iteration `i` is `arch i` -/
def rStepI (c : RCfg) (sizes msizes : Nat → Nat) (arch : Nat → Option Nat) (p : RState × Nat) : RState × Nat :=
  (rStep c sizes msizes (arch p.2) p.1, p.2 + 1)

/-- the same on the states that satisfy the invariant -/
def rStepS (c : RCfg) (sizes msizes : Nat → Nat) (arch : Nat → Option Nat) (hms : ∀ i, 1 ≤ msizes i) (h1 : 1 ≤ c.minPop)
    (h2 : 1 ≤ c.maxPop) (p : {p : RState × Nat // RInv p.1}) : {p : RState × Nat // RInv p.1} :=
  ⟨rStepI c sizes msizes arch p.1, (rStep_inv c sizes msizes hms h1 h2 (arch p.1.2) p.1.1 p.2).1⟩

/-- **Progress is a theorem for runs with restarts too** -/
theorem rStepS_progress (c : RCfg) (sizes msizes : Nat → Nat) (arch : Nat → Option Nat) (hs : ∀ i, 1 ≤ sizes i)
    (hms : ∀ i, 1 ≤ msizes i) (h1 : 1 ≤ c.minPop) (h2 : 1 ≤ c.maxPop) :
    Progress (rStepS c sizes msizes arch hms h1 h2) (fun p => p.1.1.nfe) := by
  intro p
  exact rStep_progress c sizes msizes hs hms (arch p.1.2) p.1.1 p.2.1

/-- **C08 with restarts, without a premise about steps**: `run(N)` terminates within `N` iterations and stops after the
first iteration (step + restart, if any) at which the evaluations counted since the call began reach `N` -/
theorem restart_run_stops_at_first_reach (c : RCfg) (sizes msizes : Nat → Nat) (arch : Nat → Option Nat)
    (hs : ∀ i, 1 ≤ sizes i) (hms : ∀ i, 1 ≤ msizes i) (h1 : 1 ≤ c.minPop) (h2 : 1 ≤ c.maxPop) (N : Nat)
    (s : {p : RState × Nat // RInv p.1}) :
    ∃ k, run (rStepS c sizes msizes arch hms h1 h2) (fun p => p.1.1.nfe) N s
        = ((rStepS c sizes msizes arch hms h1 h2)^[k] s, k) ∧ k ≤ N ∧
      (∀ i, i < k → ((rStepS c sizes msizes arch hms h1 h2)^[i] s).1.1.nfe - s.1.1.nfe < N) ∧
      ((rStepS c sizes msizes arch hms h1 h2)^[k] s).1.1.nfe - s.1.1.nfe ≥ N :=
  run_stops_at_first_reach _ _ (rStepS_progress c sizes msizes arch hs hms h1 h2) N s

/-- **overshoot of an iteration with a restart**: fewer than `population_size + a` offspring from the step plus fewer than
`new_size - len(archive) + b` injected, when no variator call returns more than `a` and no mutator call more than `b` -/
theorem rStep_overshoot (c : RCfg) (sizes msizes : Nat → Nat) (hs : ∀ i, 1 ≤ sizes i) (a b : Nat) (ha : ∀ i, sizes i ≤ a)
    (hb : ∀ i, msizes i ≤ b) (hms : ∀ i, 1 ≤ msizes i) (arc : Nat) (s : RState) (hp : 1 ≤ s.popSize) (h0 : s.nfe ≠ 0) :
    (rStep c sizes msizes (some arc) s).nfe < s.nfe + s.popSize + a + ((newSize c arc - arc) + b) := by
  have hg := (genStep_increment_while { style := .whileMerge, popSize := s.popSize, offSize := s.popSize } sizes hs a ha rfl hp
    { nfe := s.nfe, pos := s.pos, pop := s.pop } h0).2
  have hg' : (rGen sizes s).nfe < s.nfe + s.popSize + a := by simpa [rGen] using hg
  obtain ⟨_, _, _, e4, _, _⟩ := restart_spec c msizes hms arc (rGen sizes s)
  simp only [rStep]
  by_cases h : newSize c arc ≤ arc
  · rw [restart_no_injection c msizes arc (rGen sizes s) h]
    simp only
    omega
  · have ho := restart_overshoot c msizes b hb arc (rGen sizes s) (by omega)
    omega

/-! non-vacuity and agreement with the code on a small case (ratio 2, sizes 4..12, mutation operator): population 6, first
step evaluates 6; second step 6 offspring, then a restart with 3 archive members: new size 6, 3 injected; third step runs
with population size 6; a restart with 9 archive members: new size 12 … -/
example :
    let c : RCfg := { ratio := 2, minPop := 4, maxPop := 12 }
    let s := rRun c (fun _ => 2) (fun _ => 1) [none, some 3, none, some 9, some 20] { nfe := 0, pos := 0, mpos := 0, pop := 0, popSize := 6 }
    s = { nfe := 6 + 6 + 3 + 6 + 6 + 3 + 12, pos := 3 + 3 + 3 + 6, mpos := 6, pop := 20, popSize := 20 } := by
  decide

example : RInv { nfe := 0, pos := 0, mpos := 0, pop := 0, popSize := 6 } := ⟨by decide, Or.inl rfl⟩

end Platypus
