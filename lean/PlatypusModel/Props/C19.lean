import PlatypusModel.Model.Codec
set_option linter.unusedSectionVars false
/-!
# C19 — saved solution files read back exactly (JSON-value level)

The decoder model (`decodeJ`: bottom-up, document-order `object_hook` with the decoder's mutable problem
threaded through) applied to what the encoder model writes returns the same variables, objective and
constraint values in the same order, with violation and feasibility recomputed with respect to the
problem the decoder ends up with: the supplied one, the one restored from a file written from a live
algorithm (repaired hook), or the shape placeholder.  Text ↔ double conversion is CPython's
(`repr` / `float`, exercised by the correspondence on adversarial doubles), not part of the model.
-/
namespace Platypus

mutual
/-- JSON values without objects (what variables / objectives / constraints contain) -/
def Plain : J → Prop
  | .obj _ => False
  | .arr l => PlainList l
  | _ => True
def PlainList : List J → Prop
  | [] => True
  | x :: xs => Plain x ∧ PlainList xs
end

mutual
def embed : J → V
  | .null => .null | .bool b => .bool b | .int i => .int i | .num b => .num b | .str s => .str s
  | .arr l => .arr (embedList l)
  | .obj _ => .null
def embedList : List J → List V
  | [] => []
  | x :: xs => embed x :: embedList xs
end

def PlainSol (s : ESol) : Prop := PlainList s.vars ∧ PlainList s.objs ∧ PlainList s.cons

theorem mkSol_vars (p : PDesc) (v o c : List J) : (mkSol p v o c).vars = v := rfl
theorem mkSol_objs (p : PDesc) (v o c : List J) : (mkSol p v o c).objs = o := rfl
theorem mkSol_cons (p : PDesc) (v o c : List J) : (mkSol p v o c).cons = c := rfl

mutual
theorem decode_plain_aux (fixed : Bool) (parse : String → Option (Op × Float)) :
    (j : J) → (hj : Plain j) → (st : DState) →
    decodeJ fixed parse j st = (embed j, st) ∧ vToJ (embed j) = j
  | .null, _, st => by simp [decodeJ, embed, vToJ]
  | .bool b, _, st => by simp [decodeJ, embed, vToJ]
  | .int b, _, st => by simp [decodeJ, embed, vToJ]
  | .num b, _, st => by simp [decodeJ, embed, vToJ]
  | .str b, _, st => by simp [decodeJ, embed, vToJ]
  | .arr l, h, st => by
    have h' : PlainList l := by simpa [Plain] using h
    have := decode_plainList_aux fixed parse l h' st
    simp [decodeJ, embed, vToJ, this.1, this.2]
  | .obj kv, h, st => by simp [Plain] at h
theorem decode_plainList_aux (fixed : Bool) (parse : String → Option (Op × Float)) :
    (l : List J) → (hj : PlainList l) → (st : DState) →
    decodeList fixed parse l st = (embedList l, st) ∧ vToJList (embedList l) = l
  | [], _, st => by simp [decodeList, embedList, vToJList]
  | x :: xs, h, st => by
    have h' : Plain x ∧ PlainList xs := by simpa [PlainList] using h
    have h1 := decode_plain_aux fixed parse x h'.1 st
    have h2 := decode_plainList_aux fixed parse xs h'.2 st
    simp [decodeList, embedList, vToJList, h1.1, h1.2, h2.1, h2.2]
end

theorem decodeList_plain (fixed : Bool) (parse : String → Option (Op × Float)) (l : List J) (h : PlainList l)
    (st : DState) : decodeList fixed parse l st = (embedList l, st) :=
  (decode_plainList_aux fixed parse l h st).1

theorem vToJList_embedList (l : List J) (h : PlainList l) : vToJList (embedList l) = l :=
  (decode_plainList_aux true (fun _ => none) l h { problem := none }).2

/-- plain values pass through the decoder unchanged and do not touch its state -/
theorem decode_plain (fixed : Bool) (parse : String → Option (Op × Float)) (j : J) (hj : Plain j) (st : DState) :
    decodeJ fixed parse j st = (embed j, st) ∧ vToJ (embed j) = j :=
  decode_plain_aux fixed parse j hj st

/-- one saved solution, decoded while the decoder's problem is `p` -/
theorem decode_solution (fixed : Bool) (parse : String → Option (Op × Float)) (s : ESol) (hs : PlainSol s) (p : PDesc) :
    decodeJ fixed parse (encodeSol s) { problem := some p } =
      (.sol (mkSol p s.vars s.objs s.cons), { problem := some p }) := by
  obtain ⟨h1, h2, h3⟩ := hs
  simp [encodeSol, decodeJ, decodeMembers, decodeList_plain _ _ _ h1, decodeList_plain _ _ _ h2,
    decodeList_plain _ _ _ h3, hook, lookup, vList, vToJList_embedList _ h1, vToJList_embedList _ h2,
    vToJList_embedList _ h3]

/-- one saved solution, decoded while the decoder has no problem: the placeholder is created -/
theorem decode_solution_none (fixed : Bool) (parse : String → Option (Op × Float)) (s : ESol) (hs : PlainSol s) :
    decodeJ fixed parse (encodeSol s) { problem := none } =
      (.sol (mkSol (placeholder s.vars.length s.objs.length s.cons.length) s.vars s.objs s.cons),
       { problem := some (placeholder s.vars.length s.objs.length s.cons.length) }) := by
  obtain ⟨h1, h2, h3⟩ := hs
  simp [encodeSol, decodeJ, decodeMembers, decodeList_plain _ _ _ h1, decodeList_plain _ _ _ h2,
    decodeList_plain _ _ _ h3, hook, lookup, vList, vToJList_embedList _ h1, vToJList_embedList _ h2,
    vToJList_embedList _ h3]

theorem decodeList_sols_supplied (fixed : Bool) (parse : String → Option (Op × Float)) (l : List ESol)
    (hl : ∀ s ∈ l, PlainSol s) (p : PDesc) :
    decodeList fixed parse (l.map encodeSol) { problem := some p } =
      (l.map fun s => .sol (mkSol p s.vars s.objs s.cons), { problem := some p }) := by
  induction l with
  | nil => simp [decodeList]
  | cons s l ih =>
    have hs : PlainSol s := hl s (by simp)
    have hl' : ∀ t ∈ l, PlainSol t := fun t ht => hl t (by simp [ht])
    simp [decodeList, decode_solution fixed parse s hs p, ih hl']

theorem decodeList_sols_inferred (fixed : Bool) (parse : String → Option (Op × Float)) (s : ESol) (l : List ESol)
    (hl : ∀ t ∈ s :: l, PlainSol t) :
    decodeList fixed parse ((s :: l).map encodeSol) { problem := none } =
      ((s :: l).map fun t => .sol (mkSol (placeholder s.vars.length s.objs.length s.cons.length) t.vars t.objs t.cons),
       { problem := some (placeholder s.vars.length s.objs.length s.cons.length) }) := by
  have hs : PlainSol s := hl s (by simp)
  have hl' : ∀ t ∈ l, PlainSol t := fun t ht => hl t (by simp [ht])
  simp [decodeList, decode_solution_none fixed parse s hs, decodeList_sols_supplied fixed parse l hl']

/-- **list / archive, problem supplied**: same values, same order, bound to the supplied problem with
violation and feasibility recomputed from its constraint declarations -/
theorem json_roundtrip_list_supplied (fixed : Bool) (parse : String → Option (Op × Float)) (l : List ESol)
    (hl : ∀ s ∈ l, PlainSol s) (p : PDesc) :
    decodeJ fixed parse (encodeList l) { problem := some p } =
      (.arr (l.map fun s => .sol (mkSol p s.vars s.objs s.cons)), { problem := some p }) := by
  simp [encodeList, decodeJ, decodeList_sols_supplied fixed parse l hl p]

/-- **list / archive, no problem supplied**: same values and order; the problem is the placeholder
inferred from the first solution's shape (empty lists read back as empty lists) -/
theorem json_roundtrip_list_inferred (fixed : Bool) (parse : String → Option (Op × Float)) (s : ESol) (l : List ESol)
    (hl : ∀ t ∈ s :: l, PlainSol t) :
    let ph := placeholder s.vars.length s.objs.length s.cons.length
    decodeJ fixed parse (encodeList (s :: l)) { problem := none } =
      (.arr ((s :: l).map fun t => .sol (mkSol ph t.vars t.objs t.cons)), { problem := some ph }) ∧
    decodeJ fixed parse (encodeList []) { problem := none } = (.arr [], { problem := none }) := by
  intro ph
  refine ⟨?_, ?_⟩
  · simp only [encodeList, decodeJ, decodeList_sols_inferred fixed parse s l hl]
    rfl
  · simp [encodeList, decodeJ, decodeList]

/-! ### algorithm files -/

theorem decodeList_strs {α : Type} (fixed : Bool) (parse : String → Option (Op × Float)) (f : α → String)
    (l : List α) (st : DState) :
    decodeList fixed parse (l.map fun x => J.str (f x)) st = (l.map fun x => V.str (f x), st) := by
  induction l with
  | nil => simp [decodeList]
  | cons x l ih => simp [decodeList, decodeJ, ih]

theorem decodeList_strs_id (fixed : Bool) (parse : String → Option (Op × Float))
    (l : List String) (st : DState) :
    decodeList fixed parse (l.map J.str) st = (l.map V.str, st) := by
  simpa using decodeList_strs fixed parse (fun x => x) l st

/-- the decoded "problem" member -/
def probV (pname : String) (p : PDesc) (consStr types : List String) : V :=
  .obj [("name", .str pname), ("nvars", .int p.nvars), ("nobjs", .int p.nobjs),
        ("nconstrs", .int p.nconstrs), ("function", .null), ("types", .arr (types.map .str)),
        ("directions", .arr (p.dirs.map fun d => .str (if d then "MAXIMIZE" else "MINIMIZE"))),
        ("constraints", .arr (consStr.map .str))]

theorem pdescOf_probV (parse : String → Option (Op × Float)) (pname : String) (p : PDesc)
    (consStr types : List String) :
    pdescOf parse (probV pname p consStr types) =
      some { nvars := p.nvars, nobjs := p.nobjs, nconstrs := p.nconstrs, dirs := p.dirs,
             cons := consStr.filterMap parse, inferred := false } := by
  have hd : (p.dirs.map fun d => V.str (if d then "MAXIMIZE" else "MINIMIZE")).map
      (fun d => match d with | .str "MAXIMIZE" => true | _ => false) = p.dirs := by
    induction p.dirs with
    | nil => rfl
    | cons d ds ih => cases d <;> simp [ih]
  have hc : (consStr.map V.str).filterMap (fun c => match c with | .str s => parse s | _ => none) =
      consStr.filterMap parse := by
    induction consStr with
    | nil => rfl
    | cons c cs ih => simp [List.filterMap_cons, ih]
  simp only [List.map_map] at hd
  simp only [List.filterMap_map] at hc
  simp only [probV, pdescOf, lookup]
  simp
  exact ⟨hd, hc⟩

theorem decode_algorithm_members (fixed : Bool) (parse : String → Option (Op × Float)) (name pname : String)
    (nfe : Int) (p : PDesc) (consStr types : List String) (result : List ESol) (st : DState) :
    decodeJ fixed parse (encodeAlgorithm name nfe pname p consStr types result) st =
      let r := decodeList fixed parse (result.map encodeSol) st
      hook fixed parse [("algorithm", .obj [("name", .str name), ("nfe", .int nfe)]),
        ("problem", probV pname p consStr types), ("result", .arr r.1)] r.2 := by
  simp [encodeAlgorithm, encodeList, decodeJ, decodeMembers, decodeList_strs, decodeList_strs_id, hook, lookup, probV]

/-- **file written from a live algorithm, no problem supplied, repaired hook**: the problem shape,
directions and constraints are restored from the file and every solution is bound to it, with violation
and feasibility recomputed from the restored declarations -/
theorem json_roundtrip_algorithm (parse : String → Option (Op × Float)) (name pname : String) (nfe : Int)
    (p : PDesc) (consStr types : List String) (result : List ESol) (hr : ∀ s ∈ result, PlainSol s)
    (hcons : consStr.filterMap parse = p.cons) (hinf : p.inferred = false) :
    decodeJ true parse (encodeAlgorithm name nfe pname p consStr types result) { problem := none } =
      (.arr (result.map fun s => .sol (mkSol p s.vars s.objs s.cons)), { problem := some p }) := by
  have hp : pdescOf parse (probV pname p consStr types) = some p := by
    rw [pdescOf_probV, hcons, ← hinf]
  rw [decode_algorithm_members]
  cases result with
  | nil => simp [decodeList, hook, lookup, hp]
  | cons s rest =>
    rw [decodeList_sols_inferred true parse s rest hr]
    simp [hook, lookup, hp, placeholder, mkSol_vars, mkSol_objs, mkSol_cons]

/-- … and with a supplied problem the supplied one is used -/
theorem json_roundtrip_algorithm_supplied (fixed : Bool) (parse : String → Option (Op × Float)) (name pname : String)
    (nfe : Int) (p q : PDesc) (consStr types : List String) (result : List ESol) (hr : ∀ s ∈ result, PlainSol s)
    (hq : q.inferred = false) :
    decodeJ fixed parse (encodeAlgorithm name nfe pname p consStr types result) { problem := some q } =
      (.arr (result.map fun s => .sol (mkSol q s.vars s.objs s.cons)), { problem := some q }) := by
  rw [decode_algorithm_members, decodeList_sols_supplied fixed parse result hr q]
  simp [hook, lookup, hq]

/-- the originally pinned hook (no re-binding): the solutions of a non-empty algorithm file loaded without
a problem stay bound to the placeholder — the saved declarations are lost -/
theorem json_algorithm_pinned_loses_problem (parse : String → Option (Op × Float)) (name pname : String) (nfe : Int)
    (p : PDesc) (consStr types : List String) (s : ESol) (rest : List ESol) (hr : ∀ t ∈ s :: rest, PlainSol t) :
    let ph := placeholder s.vars.length s.objs.length s.cons.length
    decodeJ false parse (encodeAlgorithm name nfe pname p consStr types (s :: rest)) { problem := none } =
      (.arr ((s :: rest).map fun t => .sol (mkSol ph t.vars t.objs t.cons)), { problem := some ph }) := by
  intro ph
  rw [decode_algorithm_members, decodeList_sols_inferred false parse s rest hr]
  simp [hook, lookup, ph]

end Platypus
