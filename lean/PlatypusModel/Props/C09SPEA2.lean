import PlatypusModel.Model.SPEA2
import Mathlib.Data.List.Sublists
import Mathlib.Data.List.Perm.Basic
set_option linter.unusedSectionVars false
/-!
# C09 — SPEA2's environmental selection as computed on doubles

`Model/SPEA2.lean` is the literal transcription of `_truncate` with the distance matrix (tied to the code bit for
bit by the correspondence check).  These theorems are about that concrete function, for **arbitrary** fitness
values (no arithmetic on doubles is used: only which members have `fitness < 1.0`, the "good" ones — for SPEA2
these are the non-dominated members, see `spea2_raw_zero_iff` in `Props/C09.lean` for the exact-arithmetic
link): every survivor was a candidate; if the good members fit they all survive; if they overflow only good
members survive and exactly `size` of them; the population never exceeds `size`.
-/
namespace Platypus

/-- the distance-matrix rows stay in step with the member list -/
theorem dmRows_length (pts : List (List Float)) : (dmRows pts).length = pts.length := by
  unfold dmRows
  rw [List.length_map, List.length_zipIdx]

theorem removePoint_length (rows : List (List (Nat × Float))) (i : Nat) (hi : i < rows.length) :
    (removePoint rows i).length = rows.length - 1 := by
  unfold removePoint
  rw [List.length_map, List.length_eraseIdx, if_pos hi]

/-- a `foldl` preserves an invariant of the state when every visited element is admissible -/
theorem c09s_foldl_inv {α β : Type _} (P : α → Prop) (Q : β → Prop) (f : α → β → α)
    (hf : ∀ a b, P a → Q b → P (f a b)) (l : List β) (a : α) (ha : P a) (hl : ∀ b ∈ l, Q b) :
    P (l.foldl f a) := by
  induction l generalizing a with
  | nil => exact ha
  | cons b t ih =>
    rw [List.foldl_cons]
    exact ih _ (hf _ _ ha (hl b List.mem_cons_self)) (fun b' hb' => hl b' (List.mem_cons_of_mem _ hb'))

/-- `find_most_crowded` returns a valid index -/
theorem findMostCrowded_lt (rows : List (List (Nat × Float))) (m : Nat) (h : findMostCrowded rows = some m) :
    m < rows.length := by
  unfold findMostCrowded at h
  refine c09s_foldl_inv (fun st : Float × Option Nat => ∀ m, st.2 = some m → m < rows.length)
    (fun ri : List (Nat × Float) × Nat => ri.2 < rows.length) _ ?_ rows.zipIdx ((1.0 : Float) / 0.0, none)
    ?_ ?_ m h
  · intro st ri hst hri k hk
    split at hk
    · exact hst k hk
    · split at hk
      · cases hk; exact hri
      · split at hk
        · split at hk
          · split at hk
            · cases hk; exact hri
            · exact hst k hk
          · exact hst k hk
        · exact hst k hk
  · intro k hk
    cases hk
  · rintro ⟨r, i⟩ hb
    exact (List.mem_zipIdx' hb).1

/-- the deletion loop only deletes: the result is a sublist of its input -/
theorem reduceLoop_sublist (fuel : Nat) (l : List (Sol Float)) (rows : List (List (Nat × Float))) (size : Nat) :
    (reduceLoop fuel l rows size).Sublist l := by
  induction fuel generalizing l rows with
  | zero => unfold reduceLoop; exact List.Sublist.refl _
  | succ n ih =>
    unfold reduceLoop
    split
    · split
      · exact (ih _ _).trans (List.eraseIdx_sublist _ _)
      · exact (ih _ _).trans (List.eraseIdx_sublist _ _)
    · exact List.Sublist.refl _

/-- with rows in step and enough fuel the loop stops at exactly `size` members -/
theorem reduceLoop_length (fuel : Nat) (l : List (Sol Float)) (rows : List (List (Nat × Float))) (size : Nat)
    (hrows : rows.length = l.length) (hfuel : l.length ≤ fuel + size) (hsize : size ≤ l.length) :
    (reduceLoop fuel l rows size).length = size := by
  induction fuel generalizing l rows with
  | zero => unfold reduceLoop; omega
  | succ n ih =>
    unfold reduceLoop
    split
    · rename_i hgt
      split
      · rename_i m hm
        have hlt : m < rows.length := findMostCrowded_lt rows m hm
        have hl : (l.eraseIdx m).length = l.length - 1 := by
          rw [List.length_eraseIdx, if_pos (by omega)]
        apply ih
        · rw [removePoint_length rows m hlt, hl, hrows]
        · rw [hl]; omega
        · rw [hl]; omega
      · have hlt : l.length - 1 < rows.length := by omega
        have hl : (l.eraseIdx (l.length - 1)).length = l.length - 1 := by
          rw [List.length_eraseIdx, if_pos (by omega)]
        apply ih
        · rw [removePoint_length rows _ hlt, hl, hrows]
        · rw [hl]; omega
        · rw [hl]; omega
    · omega

/-- the members with `fitness < 1.0` -/
def goodOnes (sols : List (Sol Float)) (fit : List Float) : List (Sol Float) :=
  ((sols.zip fit).filter fun p => p.2 < 1.0).map (·.1)

/-- every good member is a candidate -/
theorem c09s_goodOnes_subset (sols : List (Sol Float)) (fit : List Float) :
    ∀ s ∈ goodOnes sols fit, s ∈ sols := by
  intro s hs
  unfold goodOnes at hs
  obtain ⟨p, hp, rfl⟩ := List.mem_map.1 hs
  exact (List.of_mem_zip (List.mem_of_mem_filter hp)).1

/-- `_truncate` in terms of `goodOnes` -/
theorem c09s_truncate_eq (sols : List (Sol Float)) (fit : List Float) (size : Nat) :
    spea2TruncateF sols fit size =
      if (goodOnes sols fit).length < size then
        goodOnes sols fit ++
          ((((sols.zip fit).filter fun p => p.2 >= 1.0).mergeSort fun a b => a.2 ≤ b.2).take
            (size - (goodOnes sols fit).length)).map (·.1)
      else
        reduceLoop (goodOnes sols fit).length (goodOnes sols fit)
          (dmRows ((goodOnes sols fit).map (·.objs))) size := rfl

/-- every survivor was a candidate -/
theorem spea2TruncateF_subset (sols : List (Sol Float)) (fit : List Float) (size : Nat) :
    ∀ s ∈ spea2TruncateF sols fit size, s ∈ sols := by
  intro s hs
  rw [c09s_truncate_eq] at hs
  split at hs
  · rcases List.mem_append.1 hs with h | h
    · exact c09s_goodOnes_subset sols fit s h
    · obtain ⟨p, hp, rfl⟩ := List.mem_map.1 h
      have h1 := List.mem_mergeSort.1 (List.mem_of_mem_take hp)
      exact (List.of_mem_zip (List.mem_of_mem_filter h1)).1
  · exact c09s_goodOnes_subset sols fit s ((reduceLoop_sublist _ _ _ _).subset hs)

/-- the population never exceeds `size` -/
theorem spea2TruncateF_length_le (sols : List (Sol Float)) (fit : List Float) (size : Nat) :
    (spea2TruncateF sols fit size).length ≤ size := by
  rw [c09s_truncate_eq]
  split
  · rw [List.length_append, List.length_map, List.length_take]
    omega
  · rw [reduceLoop_length _ _ _ _ (by rw [dmRows_length, List.length_map]) (by omega) (by omega)]

/-- if the good members fit they all survive -/
theorem spea2TruncateF_keeps_good (sols : List (Sol Float)) (fit : List Float) (size : Nat)
    (hfit : (goodOnes sols fit).length ≤ size) :
    ∀ s ∈ goodOnes sols fit, s ∈ spea2TruncateF sols fit size := by
  intro s hs
  rw [c09s_truncate_eq]
  split
  · exact List.mem_append_left _ hs
  · have hlen := reduceLoop_length (goodOnes sols fit).length (goodOnes sols fit)
      (dmRows ((goodOnes sols fit).map (·.objs))) size (by rw [dmRows_length, List.length_map])
      (by omega) (by omega)
    rw [(reduceLoop_sublist _ _ _ _).eq_of_length (by omega)]
    exact hs

/-- if the good members overflow, exactly `size` members survive and all of them are good -/
theorem spea2TruncateF_only_good (sols : List (Sol Float)) (fit : List Float) (size : Nat)
    (hover : size ≤ (goodOnes sols fit).length) :
    (spea2TruncateF sols fit size).length = size ∧ ∀ s ∈ spea2TruncateF sols fit size, s ∈ goodOnes sols fit := by
  rw [c09s_truncate_eq, if_neg (by omega)]
  exact ⟨reduceLoop_length _ _ _ _ (by rw [dmRows_length, List.length_map]) (by omega) hover,
    fun s hs => (reduceLoop_sublist _ _ _ _).subset hs⟩

end Platypus
