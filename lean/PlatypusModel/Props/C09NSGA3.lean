import PlatypusModel.Model.NSGA3
import PlatypusModel.Props.C04
import Mathlib.Data.List.Perm.Basic
import Mathlib.Data.List.Perm.Subperm
set_option linter.unusedSectionVars false
/-!
# C09 — NSGA-III's environmental selection (`_reference_point_truncate`)

`Model/NSGA3.lean` is the transcription of the method (tied to the code bit for bit by the correspondence check).
The theorems are about the generic loop `nsga3TruncateG`, i.e. they hold for **every** rank annotation, every association of
solutions to reference points, every "closest candidate" choice and every outcome of `random.choice` — no
arithmetic on doubles is used — and are then instantiated at the function the check runs on doubles.

* whole fronts that fit are kept, in rank order, as a prefix of the next population;
* everything else is drawn from the cut front only, each member at most once;
* the next population has exactly `size` members;
* the loop cannot fail with an empty `random.choice` nor run out of its iteration bound as long as the split provides
  enough candidates (which `nondominated_split` does for gap-free ranks): it terminates after at most
  `#reference points + size` passes.
-/
namespace Platypus

section
variable {σ : Type}

/-- invariant of the niching loop over `n` reference points: the three tables have one entry per reference point and an
excluded reference point has no candidates left -/
def NicheInv (n : Nat) (st : Niche σ) : Prop :=
  st.members.length = n ∧ st.potential.length = n ∧ st.excluded.length = n ∧
    ∀ i, i < n → st.excluded.getD i false = true → st.potential.getD i [] = []

def n3_minStep (excluded : List Bool) (acc : List Nat × Option Nat) (p : Nat × Nat) : List Nat × Option Nat :=
  if excluded.getD p.2 false then acc
  else match acc.2 with
    | none => ([p.2], some p.1)
    | some mc => if p.1 < mc then ([p.2], some p.1) else if p.1 == mc then (acc.1 ++ [p.2], some mc) else acc

theorem n3_minIndices_eq (members : List Nat) (excluded : List Bool) :
    minIndices members excluded = (members.zipIdx).foldl (n3_minStep excluded) ([], none) := rfl

theorem n3_minFold (excluded : List Bool) : ∀ (l : List Nat) (k : Nat) (acc : List Nat × Option Nat),
    (∀ i ∈ acc.1, i < k ∧ excluded.getD i false = false) → (acc.2.isSome → acc.1 ≠ []) →
    (∀ i ∈ ((l.zipIdx k).foldl (n3_minStep excluded) acc).1, i < k + l.length ∧ excluded.getD i false = false) ∧
    (((l.zipIdx k).foldl (n3_minStep excluded) acc).2.isSome → ((l.zipIdx k).foldl (n3_minStep excluded) acc).1 ≠ []) ∧
    ((acc.2.isSome ∨ ∃ i, k ≤ i ∧ i < k + l.length ∧ excluded.getD i false = false) →
      ((l.zipIdx k).foldl (n3_minStep excluded) acc).2.isSome) := by
  intro l
  induction l with
  | nil =>
    intro k acc h1 h2
    refine ⟨by simpa using h1, by simpa using h2, ?_⟩
    rintro (h | ⟨i, hi1, hi2, _⟩)
    · simpa using h
    · simp at hi2; omega
  | cons m l ih =>
    intro k acc h1 h2
    rw [List.zipIdx_cons, List.foldl_cons]
    have hstep1 : ∀ i ∈ (n3_minStep excluded acc (m, k)).1, i < k + 1 ∧ excluded.getD i false = false := by
      intro i hi
      unfold n3_minStep at hi
      by_cases hex : excluded.getD k false = true
      · simp only [hex, if_true] at hi
        have := h1 i hi; exact ⟨by omega, this.2⟩
      · have hex' : excluded.getD k false = false := by simpa using hex
        simp only [hex', Bool.false_eq_true, if_false] at hi
        rcases hacc : acc.2 with _ | mc
        · simp only [hacc] at hi
          simp at hi; subst hi; exact ⟨by omega, hex'⟩
        · simp only [hacc] at hi
          split_ifs at hi
          · simp at hi; subst hi; exact ⟨by omega, hex'⟩
          · simp at hi
            rcases hi with hi | hi
            · have := h1 i hi; exact ⟨by omega, this.2⟩
            · subst hi; exact ⟨by omega, hex'⟩
          · have := h1 i hi; exact ⟨by omega, this.2⟩
    have hstep2 : (n3_minStep excluded acc (m, k)).2.isSome → (n3_minStep excluded acc (m, k)).1 ≠ [] := by
      unfold n3_minStep
      by_cases hex : excluded.getD k false = true
      · simpa only [hex, if_true] using h2
      · have hex' : excluded.getD k false = false := by simpa using hex
        simp only [hex', Bool.false_eq_true, if_false]
        rcases hacc : acc.2 with _ | mc
        · simp
        · simp only
          split_ifs
          · simp
          · simp
          · intro _; exact h2 (by simp [hacc])
    have hstep3 : (acc.2.isSome ∨ excluded.getD k false = false) → (n3_minStep excluded acc (m, k)).2.isSome := by
      unfold n3_minStep
      by_cases hex : excluded.getD k false = true
      · simp only [hex, if_true]; rintro (h | h)
        · exact h
        · simp at h
      · have hex' : excluded.getD k false = false := by simpa using hex
        simp only [hex', Bool.false_eq_true, if_false]
        intro _
        rcases hacc : acc.2 with _ | mc
        · simp
        · simp only
          split_ifs <;> simp [hacc]
    obtain ⟨r1, r2, r3⟩ := ih (k + 1) (n3_minStep excluded acc (m, k)) hstep1 hstep2
    refine ⟨?_, r2, ?_⟩
    · intro i hi; have := r1 i hi; simp only [List.length_cons]; exact ⟨by omega, this.2⟩
    · rintro (h | ⟨i, hi1, hi2, hi3⟩)
      · exact r3 (Or.inl (hstep3 (Or.inl h)))
      · by_cases hik : i = k
        · subst hik; exact r3 (Or.inl (hstep3 (Or.inr hi3)))
        · exact r3 (Or.inr ⟨i, by omega, by simp only [List.length_cons] at hi2; omega, hi3⟩)

/-- the least-crowded scan returns positions of non-excluded reference points only -/
theorem minIndices_mem (members : List Nat) (excluded : List Bool) (i : Nat)
    (h : i ∈ (minIndices members excluded).1) : i < members.length ∧ excluded.getD i false = false := by
  rw [n3_minIndices_eq] at h
  have := (n3_minFold excluded members 0 ([], none) (by simp) (by simp)).1 i h
  simpa using this

/-- … and returns at least one whenever some reference point is not excluded -/
theorem minIndices_ne_nil (members : List Nat) (excluded : List Bool)
    (h : ∃ i, i < members.length ∧ excluded.getD i false = false) : (minIndices members excluded).1 ≠ [] := by
  rw [n3_minIndices_eq]
  obtain ⟨_, r2, r3⟩ := n3_minFold excluded members 0 ([], none) (by simp) (by simp)
  obtain ⟨i, hi1, hi2⟩ := h
  exact r2 (r3 (Or.inr ⟨i, by omega, by omega, hi2⟩))

def n3_argStep (st : Option Nat × Float) (p : Float × Nat) : Option Nat × Float :=
  if p.1 < st.2 then (some p.2, p.1) else st

theorem n3_argFold : ∀ (l : List Float) (k : Nat) (st : Option Nat × Float),
    (∀ i, st.1 = some i → i < k) → ∀ i, ((l.zipIdx k).foldl n3_argStep st).1 = some i → i < k + l.length := by
  intro l
  induction l with
  | nil => intro k st h i hi; simpa using h i hi
  | cons x l ih =>
    intro k st h i hi
    rw [List.zipIdx_cons, List.foldl_cons] at hi
    have := ih (k + 1) (n3_argStep st (x, k)) (by
      intro j hj
      unfold n3_argStep at hj
      split_ifs at hj
      · simp at hj; omega
      · have := h j hj; omega) i hi
    simp only [List.length_cons]; omega

/-- the strict-`<` scan returns a position of its non-empty argument (also when every distance is NaN or +inf: the last one) -/
theorem argminDist_lt (ds : List Float) (h : ds ≠ []) : argminDist ds < ds.length := by
  have hpos : 0 < ds.length := List.length_pos_of_ne_nil h
  have heq : argminDist ds = (((ds.zipIdx).foldl n3_argStep (none, INF)).1).getD (ds.length - 1) := rfl
  rw [heq]
  rcases hr : ((ds.zipIdx).foldl n3_argStep (none, INF)).1 with _ | i
  · simp; omega
  · have := n3_argFold ds 0 (none, INF) (by simp) i hr
    simpa using this

theorem n3_bindOk {ε α β : Type} (x : Except ε α) (f : α → Except ε β) (c : β)
    (h : (x >>= f) = .ok c) : ∃ b, x = .ok b ∧ f b = .ok c := by
  cases x with
  | error e => cases h
  | ok b => exact ⟨b, rfl, h⟩

theorem n3_bindErr {ε α β : Type} (x : Except ε α) (f : α → Except ε β) (e : ε)
    (h : (x >>= f) = .error e) : x = .error e ∨ ∃ b, x = .ok b ∧ f b = .error e := by
  cases x with
  | error e' => left; cases h; rfl
  | ok b => exact Or.inr ⟨b, rfl, h⟩

theorem n3_popChoice_ok (n : Nat) (tape t : RTape) (k : Nat) (h : popChoice n tape = .ok (k, t)) : k < n := by
  cases tape with
  | nil =>
    simp only [popChoice] at h
    by_cases h0 : (n == 0) = true
    · rw [if_pos h0] at h; cases h
    · rw [if_neg h0] at h; cases h
  | cons p tl =>
    obtain ⟨m, k'⟩ := p
    simp only [popChoice] at h
    by_cases h0 : (n == 0) = true
    · rw [if_pos h0] at h; cases h
    · rw [if_neg h0] at h
      by_cases h1 : (m == n && decide (k' < n)) = true
      · rw [if_pos h1] at h
        cases h
        simp at h1; exact h1.2
      · rw [if_neg h1] at h; cases h

theorem n3_popChoice_err (n : Nat) (tape : RTape) (e : N3Err) (hn : n ≠ 0) (h : popChoice n tape = .error e) :
    e = .tape := by
  have h0 : ¬ (n == 0) = true := by simpa using hn
  cases tape with
  | nil => simp only [popChoice] at h; rw [if_neg h0] at h; cases h; rfl
  | cons p tl =>
    obtain ⟨m, k'⟩ := p
    simp only [popChoice] at h
    rw [if_neg h0] at h
    by_cases h1 : (m == n && decide (k' < n)) = true
    · rw [if_pos h1] at h; cases h
    · rw [if_neg h1] at h; cases h; rfl

theorem n3_count_set : ∀ (l : List Bool) (i : Nat), i < l.length → l.getD i false = false →
    (l.set i true).count true = l.count true + 1 := by
  intro l
  induction l with
  | nil => intro i h; simp at h
  | cons b l ih =>
    intro i hi hg
    cases i with
    | zero => simp at hg; subst hg; simp
    | succ i =>
      simp at hg hi
      have := ih i hi (by simpa using hg)
      simp [List.count_cons, this]; omega

theorem n3_flatten_set_perm : ∀ (L : List (List σ)) (idx j : Nat) (s : σ), idx < L.length →
    (L.getD idx [])[j]? = some s →
    (s :: (L.set idx ((L.getD idx []).eraseIdx j)).flatten).Perm L.flatten := by
  intro L
  induction L with
  | nil => intro idx j s h; simp at h
  | cons p L ih =>
    intro idx j s hi hs
    cases idx with
    | zero =>
      simp at hs
      obtain ⟨hj, rfl⟩ := List.getElem?_eq_some_iff.mp hs
      simp only [List.getD_cons_zero, List.set_cons_zero, List.flatten_cons]
      rw [← List.cons_append]
      exact (List.getElem_cons_eraseIdx_perm hj).append_right _
    | succ idx =>
      simp at hi
      have := ih idx j s hi (by simpa using hs)
      simp only [List.getD_cons_succ, List.set_cons_succ, List.flatten_cons]
      exact List.perm_middle.symm.trans (this.append_left p) |>.symm.symm

theorem n3_getD_set_ne {α : Type} (l : List α) (i j : Nat) (a d : α) (h : i ≠ j) :
    (l.set i a).getD j d = l.getD j d := by
  simp [List.getD_eq_getElem?_getD, List.getElem?_set_ne h]

/-- one pass: the invariant is kept, the result grows by at most one member which is taken out of the candidates -/
theorem nicheStep_spec (findMin : List σ → Nat → Nat) (n : Nat) (st st' : Niche σ) (tape tape' : RTape)
    (hinv : NicheInv n st) (h : nicheStep findMin st tape = .ok (st', tape')) :
    NicheInv n st' ∧
      ((st'.result = st.result ∧ st'.potential = st.potential ∧
          (st'.excluded.count true = st.excluded.count true + 1)) ∨
       (∃ s, st'.result = st.result ++ [s] ∧ st'.excluded = st.excluded ∧
          (s :: st'.potential.flatten).Perm st.potential.flatten)) := by
  obtain ⟨hml, hpl, hel, hex⟩ := hinv
  unfold nicheStep at h
  rcases hm : minIndices st.members st.excluded with ⟨mins, mc⟩
  rw [hm] at h
  simp only at h
  obtain ⟨⟨k, t1⟩, hk, h⟩ := n3_bindOk _ _ _ h
  simp only at h
  have hklt := n3_popChoice_ok _ _ _ _ hk
  have hidx : mins.getD k 0 ∈ (minIndices st.members st.excluded).1 := by
    rw [hm]; simp [List.getD_eq_getElem?_getD, hklt]
  obtain ⟨hi1, hi2⟩ := minIndices_mem _ _ _ hidx
  generalize mins.getD k 0 = idx at *
  rw [hml] at hi1
  by_cases hemp : (st.potential.getD idx []).isEmpty = true
  · rw [if_pos hemp] at h
    cases h
    refine ⟨⟨hml, hpl, by simpa using hel, ?_⟩, Or.inl ⟨rfl, rfl, ?_⟩⟩
    · intro i hi he
      by_cases hii : i = idx
      · subst hii; simpa using hemp
      · simp only at he ⊢
        rw [n3_getD_set_ne _ _ _ _ _ (Ne.symm hii)] at he
        exact hex i hi he
    · exact n3_count_set _ _ (by omega) hi2
  · rw [if_neg hemp] at h
    have key : ∃ j s, (st.potential.getD idx [])[j]? = some s ∧
        st' = { result := st.result ++ [s], members := st.members.set idx (st.members.getD idx 0 + 1),
                potential := st.potential.set idx ((st.potential.getD idx []).eraseIdx j),
                excluded := st.excluded } := by
      by_cases hmc : (mc == some 0) = true
      · rw [if_pos hmc] at h
        obtain ⟨⟨j, t2⟩, hj, h⟩ := n3_bindOk _ _ _ h
        simp only at h
        rcases hs : (st.potential.getD idx [])[j]? with _ | s
        · rw [hs] at h; cases h
        · rw [hs] at h; cases h; exact ⟨j, s, hs, rfl⟩
      · rw [if_neg hmc] at h
        obtain ⟨⟨j, t2⟩, hj, h⟩ := n3_bindOk _ _ _ h
        simp only at h
        rcases hs : (st.potential.getD idx [])[j]? with _ | s
        · rw [hs] at h; cases h
        · rw [hs] at h; cases h; exact ⟨j, s, hs, rfl⟩
    obtain ⟨j, s, hs, rfl⟩ := key
    refine ⟨⟨by simpa using hml, by simpa using hpl, hel, ?_⟩, Or.inr ⟨s, rfl, rfl, ?_⟩⟩
    · intro i hi he
      simp only at he ⊢
      have hii : idx ≠ i := by
        intro e; subst e; rw [hi2] at he; cases he
      rw [n3_getD_set_ne _ _ _ _ _ hii]
      exact hex i hi he
    · exact n3_flatten_set_perm _ _ _ _ (by omega) hs

/-- the loop: the starting result is a prefix of the outcome, everything after it comes from the candidates (each at most
once), and the outcome has exactly `size` members -/
theorem nicheLoop_spec (findMin : List σ → Nat → Nat) (size n : Nat) (fuel : Nat) (st : Niche σ) (tape tape' : RTape)
    (out : List σ) (hinv : NicheInv n st) (hle : st.result.length ≤ size)
    (h : nicheLoop findMin size fuel st tape = .ok (out, tape')) :
    ∃ chosen, out = st.result ++ chosen ∧ chosen.Subperm st.potential.flatten ∧ out.length = size := by
  induction fuel generalizing st tape with
  | zero =>
    unfold nicheLoop at h
    by_cases hlt : st.result.length < size
    · rw [if_pos hlt] at h; cases h
    · rw [if_neg hlt] at h; cases h
      exact ⟨[], by simp, List.nil_subperm, by omega⟩
  | succ fuel ih =>
    unfold nicheLoop at h
    by_cases hlt : st.result.length < size
    · rw [if_pos hlt] at h
      obtain ⟨⟨st1, t1⟩, hstep, h⟩ := n3_bindOk _ _ _ h
      simp only at h
      obtain ⟨hinv1, hcase⟩ := nicheStep_spec findMin n st st1 tape t1 hinv hstep
      rcases hcase with ⟨hr, hp, _⟩ | ⟨s, hr, _, hp⟩
      · obtain ⟨chosen, ho, hc, hl⟩ := ih st1 t1 hinv1 (by rw [hr]; exact hle) h
        exact ⟨chosen, by rw [ho, hr], by rw [← hp]; exact hc, hl⟩
      · obtain ⟨chosen, ho, hc, hl⟩ := ih st1 t1 hinv1 (by rw [hr]; simp; omega) h
        refine ⟨s :: chosen, by rw [ho, hr]; simp, ?_, hl⟩
        exact ((List.subperm_cons s).mpr hc).trans hp.subperm
    · rw [if_neg hlt] at h; cases h
      exact ⟨[], by simp, List.nil_subperm, by omega⟩

/-- a pass cannot fail with an empty choice or a bad index while some candidate is left -/
theorem n3_nicheStep_err (findMin : List σ → Nat → Nat) (hfm : ∀ pot idx, pot ≠ [] → findMin pot idx < pot.length)
    (n : Nat) (st : Niche σ) (tape : RTape) (e : N3Err) (hinv : NicheInv n st)
    (hcand : st.potential.flatten ≠ [])
    (h : nicheStep findMin st tape = .error e) : e = .tape := by
  obtain ⟨hml, hpl, hel, hex⟩ := hinv
  have hmins : (minIndices st.members st.excluded).1 ≠ [] := by
    apply minIndices_ne_nil
    obtain ⟨x, hx⟩ := List.exists_mem_of_ne_nil _ hcand
    obtain ⟨p, hp, hxp⟩ := List.mem_flatten.mp hx
    obtain ⟨i, hi, rfl⟩ := List.getElem_of_mem hp
    refine ⟨i, by omega, ?_⟩
    by_contra hne
    have := hex i (by omega) (by simpa using hne)
    rw [List.getD_eq_getElem?_getD, List.getElem?_eq_getElem hi] at this
    simp at this
    rw [this] at hxp; simp at hxp
  unfold nicheStep at h
  rcases hm : minIndices st.members st.excluded with ⟨mins, mc⟩
  rw [hm] at h hmins
  simp only at h hmins
  rcases n3_bindErr _ _ _ h with hk | ⟨⟨k, t1⟩, hk, h⟩
  · exact n3_popChoice_err _ _ _ (by simpa using hmins) hk
  · simp only at h
    generalize mins.getD k 0 = idx at *
    by_cases hemp : (st.potential.getD idx []).isEmpty = true
    · rw [if_pos hemp] at h; cases h
    · rw [if_neg hemp] at h
      have hne : st.potential.getD idx [] ≠ [] := by simpa using hemp
      by_cases hmc : (mc == some 0) = true
      · rw [if_pos hmc] at h
        rcases n3_bindErr _ _ _ h with hj | ⟨⟨j, t2⟩, hj, h⟩
        · cases hj
        · cases hj
          simp only at h
          have := hfm _ idx hne
          rw [List.getElem?_eq_getElem this] at h
          cases h
      · rw [if_neg hmc] at h
        rcases n3_bindErr _ _ _ h with hj | ⟨⟨j, t2⟩, hj, h⟩
        · exact n3_popChoice_err _ _ _ (by simpa using hne) hj
        · have := n3_popChoice_ok _ _ _ _ hj
          simp only at h
          rw [List.getElem?_eq_getElem this] at h
          cases h

/-- the loop cannot fail with an empty `random.choice` / a bad index nor exhaust its iteration bound: with enough
candidates and `fuel ≥ (#not excluded) + (size - |result|)` the only possible failure is a tape mismatch -/
theorem nicheLoop_progress (findMin : List σ → Nat → Nat) (hfm : ∀ pot idx, pot ≠ [] → findMin pot idx < pot.length)
    (size n : Nat) (fuel : Nat) (st : Niche σ) (tape : RTape) (e : N3Err)
    (hinv : NicheInv n st) (hcand : size ≤ st.result.length + st.potential.flatten.length)
    (hfuel : (n - st.excluded.count true) + (size - st.result.length) ≤ fuel)
    (h : nicheLoop findMin size fuel st tape = .error e) : e = .tape := by
  induction fuel generalizing st tape with
  | zero =>
    unfold nicheLoop at h
    have hlt : ¬ st.result.length < size := by omega
    rw [if_neg hlt] at h; cases h
  | succ fuel ih =>
    unfold nicheLoop at h
    by_cases hlt : st.result.length < size
    · rw [if_pos hlt] at h
      rcases n3_bindErr _ _ _ h with hstep | ⟨⟨st1, t1⟩, hstep, h⟩
      · refine n3_nicheStep_err findMin hfm n st tape e hinv ?_ hstep
        intro h0; rw [h0] at hcand; simp at hcand; omega
      · simp only at h
        obtain ⟨hinv1, hcase⟩ := nicheStep_spec findMin n st st1 tape t1 hinv hstep
        have hc1 := List.count_le_length (a := true) (l := st1.excluded)
        rw [hinv1.2.2.1] at hc1
        rcases hcase with ⟨hr, hp, hc⟩ | ⟨s, hr, he, hp⟩
        · exact ih st1 t1 hinv1 (by rw [hr, hp]; exact hcand) (by rw [hr, hc]; omega) h
        · have hl := hp.length_eq
          simp only [List.length_cons] at hl
          exact ih st1 t1 hinv1 (by rw [hr]; simp only [List.length_append, List.length_singleton]; omega)
            (by rw [hr, he]; simp only [List.length_append, List.length_singleton]; omega) h
    · rw [if_neg hlt] at h; cases h

theorem n3_filter_lt_succ (key : σ → Nat) (n : Nat) (l : List σ) :
    (l.filter (fun s => decide (key s < n)) ++ l.filter (fun s => key s == n)).Perm
      (l.filter (fun s => decide (key s < n + 1))) := by
  induction l with
  | nil => simp
  | cons a l ih =>
    by_cases h1 : key a < n
    · have h2 : key a < n + 1 := by omega
      have h3 : ¬ key a = n := by omega
      rw [List.filter_cons_of_pos (by simpa using h1), List.filter_cons_of_neg (by simpa using h3),
        List.filter_cons_of_pos (by simpa using h2)]
      exact ih.cons a
    · by_cases h3 : key a = n
      · have h2 : key a < n + 1 := by omega
        rw [List.filter_cons_of_neg (by simpa using h1), List.filter_cons_of_pos (by simpa using h3),
          List.filter_cons_of_pos (by simpa using h2)]
        exact List.perm_middle.trans (ih.cons a)
      · have h2 : ¬ key a < n + 1 := by omega
        rw [List.filter_cons_of_neg (by simpa using h1), List.filter_cons_of_neg (by simpa using h3),
          List.filter_cons_of_neg (by simpa using h2)]
        exact ih

theorem n3_buckets_perm (key : σ → Nat) (l : List σ) (n : Nat) :
    ((List.range n).map fun i => l.filter fun s => key s == i).flatten.Perm
      (l.filter (fun s => decide (key s < n))) := by
  induction n with
  | zero => simp
  | succ n ih =>
    rw [List.range_succ, List.map_append, List.flatten_append]
    simp only [List.map_cons, List.map_nil, List.flatten_cons, List.flatten_nil, List.append_nil]
    exact (ih.append_right _).trans (n3_filter_lt_succ key n l)

/-- the association tables are a rearrangement of (part of) the associated list; of all of it if every association is a
reference point -/
theorem associate_flatten_subperm (nrefs : Nat) (assoc : σ → Nat) (l : List σ) :
    (associate nrefs assoc l).flatten.Subperm l := by
  unfold associate
  exact (n3_buckets_perm assoc l nrefs).subperm.trans List.filter_sublist.subperm

theorem associate_flatten_perm (nrefs : Nat) (assoc : σ → Nat) (l : List σ) (h : ∀ s ∈ l, assoc s < nrefs) :
    (associate nrefs assoc l).flatten.Perm l := by
  unfold associate
  refine (n3_buckets_perm assoc l nrefs).trans ?_
  rw [List.filter_eq_self.mpr]
  intro s hs; simpa using h s hs

theorem n3_associate_length (nrefs : Nat) (assoc : σ → Nat) (l : List σ) : (associate nrefs assoc l).length = nrefs := by
  simp [associate]

theorem n3_initInv (nrefs : Nat) (assoc : σ → Nat) (result remaining : List σ) :
    NicheInv nrefs
      ({ result := result,
         members := (associate nrefs assoc result).map (·.length),
         potential := associate nrefs assoc remaining,
         excluded := List.replicate nrefs false } : Niche σ) := by
  refine ⟨by simp [n3_associate_length], n3_associate_length _ _ _, by simp, ?_⟩
  intro i hi he
  simp [List.getD_eq_getElem?_getD, hi] at he

theorem n3_truncate_unfold (rank : σ → Nat) (nrefs : Nat) (assoc : σ → Nat) (findMin : List σ → Nat → Nat)
    (sols : List σ) (size : Nat) (tape : RTape) (hbig : size < sols.length) :
    nsga3TruncateG rank nrefs assoc findMin sols size tape =
      nicheLoop findMin size (nrefs + size + 1)
        { result := (nondominatedSplit rank sols size).1,
          members := (associate nrefs assoc (nondominatedSplit rank sols size).1).map (·.length),
          potential := associate nrefs assoc (nondominatedSplit rank sols size).2,
          excluded := List.replicate nrefs false } tape := by
  unfold nsga3TruncateG
  rw [if_pos hbig]

/-- **NSGA-III survival, for every rank annotation, association, choice and draw.**  If the merged population does not
exceed `size` it is the next population.  Otherwise the next population has exactly `size` members and consists of the
fronts `0 … r-1` (all of them, in rank order) followed by members of front `r` only, each at most once. -/
theorem nsga3TruncateG_spec (rank : σ → Nat) (nrefs : Nat) (assoc : σ → Nat) (findMin : List σ → Nat → Nat)
    (sols : List σ) (size : Nat) (tape tape' : RTape) (out : List σ)
    (h : nsga3TruncateG rank nrefs assoc findMin sols size tape = .ok (out, tape')) :
    (sols.length ≤ size → out = sols) ∧
    (size < sols.length → out.length = size ∧
      ∃ r chosen, out = (List.range r).flatMap (matchesRank rank sols) ++ chosen ∧
        chosen.Subperm (matchesRank rank sols r)) := by
  constructor
  · intro hle
    unfold nsga3TruncateG at h
    rw [if_neg (by omega)] at h
    cases h; rfl
  · intro hbig
    rw [n3_truncate_unfold _ _ _ _ _ _ _ hbig] at h
    obtain ⟨r, h1, h2, h3⟩ := split_spec rank sols size
    obtain ⟨chosen, ho, hc, hl⟩ := nicheLoop_spec findMin size nrefs _ _ tape tape' out (n3_initInv _ _ _ _) h2 h
    simp only at ho hc
    refine ⟨hl, r, chosen, by rw [ho]; exact congrArg (fun x => x ++ chosen) h1, ?_⟩
    have hc' := hc.trans (associate_flatten_subperm nrefs assoc _)
    rcases h3 with ⟨h3, _⟩ | ⟨h3, _⟩
    · rw [h3] at hc'
      have : chosen = [] := by simpa using hc'.length_le
      subst this; exact List.nil_subperm
    · rw [h3] at hc'; exact hc'

/-- in the words of the property: the first front is retained entirely if it fits, otherwise the survivors are drawn only
from it -/
theorem nsga3TruncateG_elitist (rank : σ → Nat) (nrefs : Nat) (assoc : σ → Nat) (findMin : List σ → Nat → Nat)
    (sols : List σ) (size : Nat) (tape tape' : RTape) (out : List σ) (hbig : size < sols.length)
    (h : nsga3TruncateG rank nrefs assoc findMin sols size tape = .ok (out, tape')) :
    ((matchesRank rank sols 0).length ≤ size → (matchesRank rank sols 0).Subperm out) ∧
    (size < (matchesRank rank sols 0).length → out.Subperm (matchesRank rank sols 0)) := by
  obtain ⟨hl, r, chosen, ho, hc⟩ := (nsga3TruncateG_spec rank nrefs assoc findMin sols size tape tape' out h).2 hbig
  cases r with
  | zero =>
    simp only [List.range_zero, List.flatMap_nil, List.nil_append] at ho
    subst ho
    exact ⟨fun hle => (hc.perm_of_length_le (by omega)).symm.subperm, fun _ => hc⟩
  | succ r =>
    have hpre : (matchesRank rank sols 0).Sublist out := by
      rw [ho, List.range_succ_eq_map, List.flatMap_cons, List.append_assoc]
      exact List.sublist_append_left _ _
    refine ⟨fun _ => hpre.subperm, fun hlt => ?_⟩
    have := hpre.length_le
    omega

/-- no empty `random.choice`, no bad index, no exhausted iteration bound, provided every solution is associated with a
reference point, the closest-candidate choice is a position of its argument and the split supplies at least `size`
solutions (true for the gap-free ranks of `nondominated_sort`) -/
theorem nsga3TruncateG_progress (rank : σ → Nat) (nrefs : Nat) (assoc : σ → Nat) (findMin : List σ → Nat → Nat)
    (hfm : ∀ pot idx, pot ≠ [] → findMin pot idx < pot.length)
    (sols : List σ) (size : Nat) (tape : RTape) (e : N3Err) (hassoc : ∀ s ∈ sols, assoc s < nrefs)
    (hsplit : size ≤ (nondominatedSplit rank sols size).1.length + (nondominatedSplit rank sols size).2.length)
    (h : nsga3TruncateG rank nrefs assoc findMin sols size tape = .error e) : e = .tape := by
  by_cases hbig : size < sols.length
  · rw [n3_truncate_unfold _ _ _ _ _ _ _ hbig] at h
    obtain ⟨r, h1, h2, h3⟩ := split_spec rank sols size
    refine nicheLoop_progress findMin hfm size nrefs _ _ tape e (n3_initInv _ _ _ _) ?_ ?_ h
    · simp only
      have hrem : ∀ s ∈ (nondominatedSplit rank sols size).2, assoc s < nrefs := by
        intro s hs
        rcases h3 with ⟨h3, _⟩ | ⟨h3, _⟩
        · rw [h3] at hs; cases hs
        · rw [h3] at hs; exact hassoc s (List.mem_of_mem_filter hs)
      rw [(associate_flatten_perm nrefs assoc _ hrem).length_eq]
      exact hsplit
    · simp only
      omega
  · unfold nsga3TruncateG at h
    rw [if_neg (by omega)] at h
    cases h
end

theorem n3_map_zip_fst {α β γ : Type} (f : α → γ) : ∀ (l₁ : List α) (l₂ : List β), l₂.length = l₁.length →
    (l₁.zip l₂).map (fun p => f p.1) = l₁.map f := by
  intro l₁
  induction l₁ with
  | nil => intro l₂ _; simp
  | cons a l₁ ih =>
    intro l₂ h
    cases l₂ with
    | nil => simp at h
    | cons b l₂ => simp at h; simp [ih l₂ h]

theorem n3_subperm_map {α β : Type} (f : α → β) {l₁ l₂ : List α} (h : l₁.Subperm l₂) :
    (l₁.map f).Subperm (l₂.map f) := by
  obtain ⟨l, hp, hs⟩ := h
  exact ⟨l.map f, hp.map f, hs.map f⟩

theorem n3_truncate_subperm {σ : Type} {rank : σ → Nat} {nrefs : Nat} {assoc : σ → Nat} {findMin : List σ → Nat → Nat}
    {sols : List σ} {size : Nat} {tape tape' : RTape} {out : List σ}
    (h : nsga3TruncateG rank nrefs assoc findMin sols size tape = .ok (out, tape')) (hbig : size < sols.length) :
    out.length = size ∧ out.Subperm sols := by
  obtain ⟨hl, r, chosen, ho, hc⟩ := (nsga3TruncateG_spec rank nrefs assoc findMin sols size tape tape' out h).2 hbig
  refine ⟨hl, ?_⟩
  have h1 : out.Subperm ((List.range (r + 1)).flatMap (matchesRank rank sols)) := by
    rw [ho, List.range_succ, List.flatMap_append]
    simp only [List.flatMap_cons, List.flatMap_nil, List.append_nil]
    exact (List.subperm_append_left _).mpr hc
  refine h1.trans ?_
  rw [List.flatMap_def]
  exact (n3_buckets_perm rank sols (r + 1)).subperm.trans List.filter_sublist.subperm

/-- the function the check runs on doubles: the next population has exactly `size` members, all taken from the merged
population, none twice -/
theorem nsga3Truncate_shape (c : Bool) (dirs : List Bool) (ideal : List Float) (refs : List (List Float))
    (merged : List (Sol Float)) (size : Nat) (tape tape' : RTape) (ids : List Nat) (ideal' : List Float)
    (hbig : size < merged.length)
    (h : nsga3Truncate c dirs ideal refs merged size tape = some (.ok (ids, ideal', tape'))) :
    ids.length = size ∧ ids.Subperm (merged.map (·.id)) := by
  simp only [nsga3Truncate, gt_iff_lt, hbig, if_true] at h
  by_cases hany : (refs.any fun r => dotF r r == 0.0) = true
  · rw [if_pos hany] at h; cases h
  · rw [if_neg hany] at h
    rw [Option.some.injEq] at h
    split at h
    · cases h
    · rename_i out t hr
      cases h
      obtain ⟨h1, h2⟩ := n3_truncate_subperm hr (by simp [rankAndCrowd]; omega)
      refine ⟨by simpa using h1, ?_⟩
      have h3 := n3_subperm_map (fun x : N3Sol => x.id) h2
      rw [List.map_map] at h3
      refine h3.trans (List.Perm.subperm (List.Perm.of_eq ?_))
      apply n3_map_zip_fst (fun s : Sol Float => s.id)
      simp [rankAndCrowd]

/-- non-vacuity: a concrete niching state meets the invariant and one pass of the loop on it succeeds -/
example : NicheInv 2 ({ result := [7], members := [1, 0], potential := [[8], [9]], excluded := [false, false] } : Niche Nat) ∧
    (nicheLoop (fun _ _ => 0) 2 5 ({ result := [7], members := [1, 0], potential := [[8], [9]], excluded := [false, false] } : Niche Nat)
      [(1, 0)]) = .ok ([7, 9], []) := by
  refine ⟨⟨rfl, rfl, rfl, ?_⟩, ?_⟩
  · intro i hi he
    match i, hi with
    | 0, _ => simp at he
    | 1, _ => simp at he
  · rfl

end Platypus

namespace Platypus
section
variable {σ : Type}

/-- a rank annotation without gaps: below every rank that occurs, every smaller rank occurs too (what `nondominated_sort`
assigns: front `r + 1` is only started when front `r` was non-empty) -/
def GapFree (rank : σ → Nat) (l : List σ) : Prop :=
  ∀ x ∈ l, ∀ r, r < rank x → matchesRank rank l r ≠ []

/-- with gap-free ranks `nondominated_split` always supplies enough solutions: the hypothesis of
`nsga3TruncateG_progress` is met whenever the merged population is at least as large as the target size -/
theorem split_supplies_of_gapFree (rank : σ → Nat) (l : List σ) (size : Nat) (hg : GapFree rank l) (hlen : size ≤ l.length) :
    size ≤ (nondominatedSplit rank l size).1.length + (nondominatedSplit rank l size).2.length := by
  obtain ⟨r, h1, h2, h3⟩ := split_spec rank l size
  rcases h3 with ⟨_, hfull | hemp⟩ | ⟨_, hlt⟩
  · omega
  · -- front r is empty: by gap-freeness every member has rank < r, so the kept fronts are the whole population
    have hall : ∀ x ∈ l, rank x < r := by
      intro x hx
      by_contra hnot
      have hle : r ≤ rank x := Nat.le_of_not_lt hnot
      rcases Nat.lt_or_ge r (rank x) with hlt | hge
      · exact hg x hx r hlt hemp
      · have heq : rank x = r := Nat.le_antisymm hge hle
        have hmem : x ∈ matchesRank rank l r := by
          simp [matchesRank, hx, heq]
        rw [hemp] at hmem
        cases hmem
    have hcount : (nondominatedSplit rank l size).1.length = l.length := by
      rw [h1, length_flatMap_matches]
      rw [List.countP_eq_length]
      intro x hx
      simpa using hall x hx
    omega
  · omega

/-- NSGA-III's survival selection with gap-free ranks, every solution associated with a reference point and a valid
closest-candidate choice can only fail on a tape mismatch: it never calls `random.choice([])`, never indexes out of range
and always terminates within its bound -/
theorem nsga3TruncateG_total_of_gapFree (rank : σ → Nat) (nrefs : Nat) (assoc : σ → Nat) (findMin : List σ → Nat → Nat)
    (hfm : ∀ pot idx, pot ≠ [] → findMin pot idx < pot.length)
    (sols : List σ) (size : Nat) (tape : RTape) (e : N3Err) (hassoc : ∀ s ∈ sols, assoc s < nrefs)
    (hg : GapFree rank sols)
    (h : nsga3TruncateG rank nrefs assoc findMin sols size tape = .error e) : e = .tape := by
  by_cases hbig : sols.length > size
  · exact nsga3TruncateG_progress rank nrefs assoc findMin hfm sols size tape e hassoc
      (split_supplies_of_gapFree rank sols size hg (by omega)) h
  · unfold nsga3TruncateG at h
    simp only [hbig, ↓reduceIte] at h
    cases h
end
end Platypus

namespace Platypus
section
variable {σ : Type}

/-- the ranks that `nondominated_sort` assigns (peeling fronts with any strict comparator, e.g. the proved Pareto
comparator, over solutions with distinct identities) are gap-free -/
theorem sortRanks_gapFree {cmp : σ → σ → Int} (h : StrictCmp cmp) (getId : σ → Nat) (sols : List σ)
    (hid : (sols.map getId).Nodup) :
    GapFree (fun x => (rankIn getId (sortFronts cmp getId sols) (getId x)).getD 0) sols := by
  -- every rank below an occurring rank occurs
  have down : ∀ (d : Nat) (x : σ), x ∈ sols → ∀ k, k + d = (rankIn getId (sortFronts cmp getId sols) (getId x)).getD 0 →
      ∃ y ∈ sols, (rankIn getId (sortFronts cmp getId sols) (getId y)).getD 0 = k := by
    intro d
    induction d with
    | zero =>
      intro x hx k hk
      exact ⟨x, hx, by omega⟩
    | succ d ih =>
      intro x hx k hk
      obtain ⟨rx, hrx⟩ := sort_assigns_rank h getId sols x hx
      rw [hrx] at hk
      simp only [Option.getD_some] at hk
      -- rank x = (k + d) + 1: some dominator has rank k + d
      have hsucc : rankIn getId (sortFronts cmp getId sols) (getId x) = some ((k + d) + 1) := by
        rw [hrx]; congr 1; omega
      obtain ⟨_, y, hy, _, hry⟩ := (rank_succ_iff h getId sols hid x hx (k + d)).mp hsucc
      exact ih y hy k (by rw [hry]; simp)
  intro x hx r hr
  have hr' : r < (rankIn getId (sortFronts cmp getId sols) (getId x)).getD 0 := hr
  obtain ⟨y, hy, hry⟩ := down ((rankIn getId (sortFronts cmp getId sols) (getId x)).getD 0 - r) x hx r (by omega)
  intro hemp
  have hmem : y ∈ matchesRank (fun x => (rankIn getId (sortFronts cmp getId sols) (getId x)).getD 0) sols r := by
    simp [matchesRank, hy, hry]
  rw [hemp] at hmem
  cases hmem
end
end Platypus
