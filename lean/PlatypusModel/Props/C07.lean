import PlatypusModel.Props.C01
import PlatypusModel.Props.C17
import Mathlib.Order.Defs.LinearOrder
import Mathlib.Data.Int.Order.Basic
/-!
# C07 — the user's problem function is only ever called with in-domain arguments

* `C07.invariant`: in every trace of the abstract machine (every accepted trace of a real run) each
  argument submitted to the user's function is valid for the declared types.
* producers of arguments: decoded integers (any bit string of the variable's length — whatever HUX /
  BitFlip / the random generator produced — decodes into `[min, max]`, from C17), clamped reals
  (the particle-swarm position update and every `clip`), generated values.
User-supplied operators, generators and injected populations are assumptions.
-/
namespace Platypus.C07

open Platypus

theorem invariant (w : World) (evs : List Event) (k : Known) (h : accept w evs = .ok k) :
    ∀ b a, Event.batch b a ∈ evs → ∀ m ∈ b, m.evaluated = false → validVals w.types m.vals = true :=
  C07_invariant w evs k h

/-- whatever bit string of the declared length an operator produced, the decoded integer is in range -/
theorem int_decode_valid (lo : Int) (w : Nat) (hw : 1 ≤ w) (bits : List Bool) (hl : bits.length = nbits w) :
    ∃ v, decode w bits = some v ∧ validVal (.int lo (lo + w)) (.int (lo + v)) = true := by
  obtain ⟨v, hv, hle⟩ := decode_in_range w hw bits hl
  refine ⟨v, hv, ?_⟩
  simp [validVal]; omega

/-- `Integer.rand()`: encoding an in-range integer gives a string of the right length that decodes back -/
theorem int_rand_valid (lo : Int) (w v : Nat) (hv : v ≤ w) :
    (encode w v).length = nbits w ∧ decode w (encode w v) = some v ∧
      validVal (.int lo (lo + w)) (.int (lo + v)) = true := by
  refine ⟨encode_length w v hv, decode_encode w v hv, ?_⟩
  simp [validVal]; omega

section
variable {α : Type} [LinearOrder α]

/-- the particle-swarm position update: `if value < min: value = min elif value > max: value = max` -/
def psoClamp (lo hi v : α) : α := if v < lo then lo else if hi < v then hi else v

theorem pso_position_valid (lo hi v : α) (h : lo ≤ hi) : lo ≤ psoClamp lo hi v ∧ psoClamp lo hi v ≤ hi := by
  unfold psoClamp
  split
  · exact ⟨le_refl _, h⟩
  · rename_i h1
    split
    · exact ⟨h, le_refl _⟩
    · rename_i h2; exact ⟨not_lt.mp h1, not_lt.mp h2⟩

/-- CMA-ES rejection sampling / any `clip`: `max(lo, min(v, hi))` lies in the box -/
theorem clip_valid (lo hi v : α) (h : lo ≤ hi) : lo ≤ max lo (min v hi) ∧ max lo (min v hi) ≤ hi :=
  ⟨le_max_left _ _, max_le h (min_le_right _ _)⟩
end

/-- validity is decidable shape + range: examples of what is rejected -/
example : validVal (.int 0 7) (.int 8) = false ∧ validVal (.perm 3) (.elems [0, 2, 2]) = false ∧
    validVal (.subset 5 2) (.elems [4, 4]) = false ∧ validVal (.binary 3) (.bits [true, false]) = false ∧
    validVal (.perm 3) (.elems [2, 0, 1]) = true ∧ validVal (.subset 5 2) (.elems [4, 1]) = true := by decide

end Platypus.C07
