import PlatypusModel.Model.Machine
import Mathlib.Data.List.Forall2
/-!
# C01 — every exposed solution carries the objectives of its own decision variables
# C07 — the user's function is only ever called with in-domain arguments

Theorems about the abstract machine: for every world (declared types + a deterministic problem
function), every trace accepted by `accept` — i.e. every trace the machine can produce; real runs are
checked to be such traces on every run of the check — satisfies the two properties at every step
boundary, and the machine's own `evaluate_all` produces accepted batches for any batch, so the
acceptor is not vacuous.
-/
namespace Platypus

/-- the statement of C01 for one exposed solution -/
def Consistent (w : World) (s : Snap) : Prop :=
  s.evaluated = true ∧ s.hasFeasible = true ∧ s.record = w.call s.vals

/-- every remembered evaluation is consistent and filed under its own identity -/
def KnownOk (w : World) (k : Known) : Prop := ∀ p ∈ k, p.1 = p.2.id ∧ Consistent w p.2

theorem Known.get_mem (k : Known) (i : Nat) (s : Snap) (h : k.get i = some s) : (i, s) ∈ k := by
  unfold Known.get at h
  cases hf : k.find? (fun p => p.1 == i) with
  | none => simp [hf] at h
  | some p =>
    simp [hf] at h
    have hm := List.mem_of_find?_eq_some hf
    have hp := List.find?_some hf
    simp at hp
    have : p = (i, s) := by cases p; simp_all
    rw [← this]; exact hm

theorem knownOk_set (w : World) (k : Known) (s : Snap) (hk : KnownOk w k) (hs : Consistent w s) :
    KnownOk w (k.set s) := by
  intro p hp
  unfold Known.set at hp
  rcases List.mem_cons.mp hp with rfl | hp
  · exact ⟨rfl, hs⟩
  · exact hk p (List.mem_filter.mp hp).1

theorem consistent_of_copy (w : World) (k : Known) (s : Snap) (hk : KnownOk w k)
    (h : k.hasCopyOf s = true) : Consistent w s := by
  unfold Known.hasCopyOf at h
  obtain ⟨p, hp, hs⟩ := List.any_eq_true.mp h
  unfold sameData at hs
  obtain ⟨h1, h2, h3, h4⟩ := of_decide_eq_true hs
  obtain ⟨c1, c2, c3⟩ := (hk p hp).2
  exact ⟨h4 ▸ c1, h3 ▸ c2, by rw [← h2, ← h1]; exact c3⟩

theorem checkMember_ok (w : World) (k k' : Known) (b a : Snap) (hk : KnownOk w k)
    (h : checkMember w k b a = .ok k') :
    KnownOk w k' ∧ Consistent w a ∧ (b.evaluated = false → validVals w.types b.vals = true ∧ b.vals = a.vals) ∧
      (b.evaluated = true → a = b) := by
  unfold checkMember at h
  split at h
  · cases h
  · split at h
    · rename_i hev
      split at h
      · split at h
        · rename_i hc
          cases h
          obtain ⟨hba, hcopy⟩ := hc
          have hcb := consistent_of_copy w k b hk hcopy
          refine ⟨knownOk_set w k a hk (hba ▸ hcb), hba ▸ hcb, by simp [hev], fun _ => hba.symm⟩
        · cases h
      · rename_i r hr
        split at h
        · rename_i hc
          cases h
          have hm := hk _ (Known.get_mem k b.id r hr)
          obtain ⟨hrb, hba⟩ := hc
          refine ⟨hk, ?_, by simp [hev], fun _ => hba.symm⟩
          rw [← hba, ← hrb]; exact hm.2
        · cases h
    · rename_i hev
      split at h
      · cases h
      · rename_i haev
        split at h
        · cases h
        · rename_i hval
          split at h
          · cases h
          · rename_i hvars
            split at h
            · cases h
            · rename_i hrec
              cases h
              have hcons : Consistent w a := by
                have hn := not_or.mp hrec
                refine ⟨by simpa using haev, ?_, ?_⟩
                · cases hf : a.hasFeasible with
                  | true => rfl
                  | false => exact absurd hf hn.2
                · exact Decidable.not_not.mp hn.1
              refine ⟨knownOk_set w k a hk hcons, hcons, fun _ => ⟨by simpa using hval, by simpa using hvars⟩, ?_⟩
              intro h; simp [h] at hev

theorem checkBatch_ok (w : World) (b a : List Snap) (k k' : Known) (hk : KnownOk w k)
    (h : checkBatch w b a k = .ok k') :
    KnownOk w k' ∧ (∀ s ∈ a, Consistent w s) ∧
      (∀ m ∈ b, m.evaluated = false → validVals w.types m.vals = true) := by
  induction b generalizing a k with
  | nil =>
    cases a with
    | nil => simp [checkBatch] at h; subst h; exact ⟨hk, by simp, by simp⟩
    | cons _ _ => simp [checkBatch] at h
  | cons x xs ih =>
    cases a with
    | nil => simp [checkBatch] at h
    | cons y ys =>
      simp only [checkBatch] at h
      split at h
      · cases h
      · rename_i k1 hm
        obtain ⟨hk1, hy, hval, _⟩ := checkMember_ok w k k1 x y hk hm
        obtain ⟨hk', hall, hvals⟩ := ih ys k1 hk1 h
        refine ⟨hk', ?_, ?_⟩
        · intro s hs
          rcases List.mem_cons.mp hs with rfl | hs
          · exact hy
          · exact hall s hs
        · intro m hm' hev
          rcases List.mem_cons.mp hm' with rfl | hm'
          · exact (hval hev).1
          · exact hvals m hm' hev

theorem checkExposed_ok (w : World) (k : Known) (ex : List Snap) (hk : KnownOk w k)
    (h : checkExposed k ex = .ok ()) : ∀ s ∈ ex, Consistent w s := by
  induction ex with
  | nil => simp
  | cons s rest ih =>
    simp only [checkExposed] at h
    split at h
    · split at h
      · rename_i hc
        intro t ht
        rcases List.mem_cons.mp ht with rfl | ht
        · exact consistent_of_copy w k _ hk hc.2
        · exact ih h t ht
      · cases h
    · rename_i r hr
      split at h
      · cases h
      · split at h
        · cases h
        · rename_i hne
          have hrs : r = s := by simpa using hne
          intro t ht
          rcases List.mem_cons.mp ht with rfl | ht
          · have := (hk _ (Known.get_mem k _ r hr)).2
            rw [hrs] at this; exact this
          · exact ih h t ht

theorem acceptFrom_ok (w : World) (evs : List Event) (k k' : Known) (hk : KnownOk w k)
    (h : acceptFrom w evs k = .ok k') :
    (∀ ex, Event.step ex ∈ evs → ∀ s ∈ ex, Consistent w s) ∧
    (∀ b a, Event.batch b a ∈ evs →
        (∀ s ∈ a, Consistent w s) ∧ ∀ m ∈ b, m.evaluated = false → validVals w.types m.vals = true) := by
  induction evs generalizing k with
  | nil => simp
  | cons e rest ih =>
    cases e with
    | batch b a =>
      simp only [acceptFrom] at h
      split at h
      · cases h
      · rename_i k1 hb
        obtain ⟨hk1, hall, hval⟩ := checkBatch_ok w b a k k1 hk hb
        obtain ⟨h1, h2⟩ := ih k1 hk1 h
        refine ⟨?_, ?_⟩
        · intro ex hex
          rcases List.mem_cons.mp hex with hh | hh
          · cases hh
          · exact h1 ex hh
        · intro b' a' hba
          rcases List.mem_cons.mp hba with hh | hh
          · cases hh; exact ⟨hall, hval⟩
          · exact h2 b' a' hh
    | step ex =>
      simp only [acceptFrom] at h
      split at h
      · cases h
      · rename_i u hex
        have hex' : checkExposed k ex = .ok () := by cases u; exact hex
        obtain ⟨h1, h2⟩ := ih k hk h
        refine ⟨?_, ?_⟩
        · intro ex' hm
          rcases List.mem_cons.mp hm with hh | hh
          · cases hh; exact checkExposed_ok w k ex hk hex'
          · exact h1 ex' hh
        · intro b' a' hba
          rcases List.mem_cons.mp hba with hh | hh
          · cases hh
          · exact h2 b' a' hh

/-- **C01**: in every accepted trace, at every step boundary every exposed solution is marked
evaluated and carries exactly the record the problem yields for its own decoded variables -/
theorem C01_invariant (w : World) (evs : List Event) (k : Known) (h : accept w evs = .ok k) :
    ∀ ex, Event.step ex ∈ evs → ∀ s ∈ ex, Consistent w s :=
  (acceptFrom_ok w evs [] k (by intro p hp; simp at hp) h).1

/-- every solution returned by `evaluate_all` in an accepted trace is consistent (whichever evaluator) -/
theorem C01_batches_consistent (w : World) (evs : List Event) (k : Known) (h : accept w evs = .ok k) :
    ∀ b a, Event.batch b a ∈ evs → ∀ s ∈ a, Consistent w s :=
  fun b a hm => ((acceptFrom_ok w evs [] k (by intro p hp; simp at hp) h).2 b a hm).1

/-- **C07**: in every accepted trace every argument submitted to the user's function is valid for the
declared types -/
theorem C07_invariant (w : World) (evs : List Event) (k : Known) (h : accept w evs = .ok k) :
    ∀ b a, Event.batch b a ∈ evs → ∀ m ∈ b, m.evaluated = false → validVals w.types m.vals = true :=
  fun b a hm => ((acceptFrom_ok w evs [] k (by intro p hp; simp at hp) h).2 b a hm).2

/-- the machine's `evaluate_all` makes every member consistent, leaves evaluated members and all
variables untouched, returns one result per member in order -/
theorem evaluateAll_spec (w : World) (batch : List Snap) :
    List.Forall₂ (fun b a => a.id = b.id ∧ a.vals = b.vals ∧ a.evaluated = true ∧
      (b.evaluated = true → a = b) ∧ (b.evaluated = false → Consistent w a)) batch (evaluateAll w batch) := by
  induction batch with
  | nil => exact List.Forall₂.nil
  | cons s rest ih =>
    refine List.Forall₂.cons ?_ ih
    by_cases he : s.evaluated = true
    · simp [he]
    · have he' : s.evaluated = false := by simpa using he
      simp [he', Consistent]

/-! non-vacuity: a one-variable world, a batch of two, exposure of both -/
example :
    let w : World := { types := [.int 0 7], call := fun v => { objs := [v.length], cons := [], cv := 0, feasible := true } }
    let s0 : Snap := { id := 0, vals := [.int 3], record := ⟨[], [], 0, false⟩, hasFeasible := false, evaluated := false }
    let s1 : Snap := { id := 1, vals := [.int 7], record := ⟨[], [], 0, false⟩, hasFeasible := false, evaluated := false }
    let a := evaluateAll w [s0, s1]
    (accept w [.batch [s0, s1] a, .step a]).toBool = true ∧
    (accept w [.batch [s0, s1] a, .step [{ (a.getD 0 s0) with vals := [.int 4] }]]).toBool = false ∧
    (accept w [.batch [{ s0 with vals := [.int 8] }] (evaluateAll w [{ s0 with vals := [.int 8] }])]).toBool = false := by
  decide

end Platypus
