import PlatypusModel.Props.C02
import Mathlib.Data.List.Induction
/-!
# C03 — a Pareto archive always equals the non-dominated subset of all it was offered

Proved for **any** comparator that is antisymmetric (`cmp y x = - cmp x y`) and whose
"dominates" relation `cmp x y < 0` is transitive — `paretoCompare` is one (`pareto_strictCmp`,
from C02), the ε-box comparator of C05 another.  Everything is about lists, so the same object
offered twice and equal-objective twins are covered (all are kept).
-/
namespace Platypus

variable {σ : Type}

/-- what C03 needs from a dominance comparator -/
structure StrictCmp (cmp : σ → σ → Int) : Prop where
  antisymm : ∀ x y, cmp y x = - cmp x y
  trans : ∀ x y z, cmp x y < 0 → cmp y z < 0 → cmp x z < 0

/-- `x` is not dominated by anything in `l` (Bool form used by the filter) -/
def undom (cmp : σ → σ → Int) (l : List σ) (x : σ) : Bool := l.all (fun y => decide (¬ cmp y x < 0))

theorem undom_iff (cmp : σ → σ → Int) (l : List σ) (x : σ) :
    undom cmp l x = true ↔ ∀ y ∈ l, ¬ cmp y x < 0 := by simp [undom]

namespace StrictCmp
variable {cmp : σ → σ → Int} (h : StrictCmp cmp)
include h

theorem irrefl (x : σ) : cmp x x = 0 := by have := h.antisymm x x; omega
theorem gt_iff (s m : σ) : cmp s m > 0 ↔ cmp m s < 0 := by have := h.antisymm s m; omega
theorem zero_iff (s m : σ) : cmp s m = 0 ↔ (¬ cmp s m < 0 ∧ ¬ cmp m s < 0) := by
  have := h.antisymm s m; omega
end StrictCmp

theorem countP_lt_of_imp {l : List σ} (p q : σ → Bool) (himp : ∀ x ∈ l, p x = true → q x = true)
    (z : σ) (hz : z ∈ l) (hq : q z = true) (hp : p z = false) : l.countP p < l.countP q := by
  induction l with
  | nil => simp at hz
  | cons a l ih =>
    have hmono : l.countP p ≤ l.countP q :=
      List.countP_mono_left (fun x hx hpx => himp x (List.mem_cons_of_mem _ hx) hpx)
    rcases List.mem_cons.mp hz with rfl | hz'
    · simp [List.countP_cons, hq, hp]; omega
    · have := ih (fun x hx => himp x (List.mem_cons_of_mem _ hx)) hz'
      have ha := himp a (List.mem_cons_self ..)
      simp only [List.countP_cons]
      cases hpa : p a <;> cases hqa : q a <;> simp_all <;> omega

/-- in a finite list, every element is undominated or dominated by an undominated element -/
theorem exists_undominated_dominator {cmp : σ → σ → Int} (h : StrictCmp cmp) (l : List σ) :
    ∀ y, (∃ z ∈ l, cmp z y < 0) → ∃ u ∈ l, undom cmp l u = true ∧ cmp u y < 0 := by
  intro y
  generalize hn : l.countP (fun z => decide (cmp z y < 0)) = n
  induction n using Nat.strongRecOn generalizing y with
  | _ n ih =>
    rintro ⟨z, hz, hzy⟩
    by_cases hu : undom cmp l z = true
    · exact ⟨z, hz, hu, hzy⟩
    · have : ∃ w ∈ l, cmp w z < 0 := by
        rw [undom_iff] at hu; push Not at hu; exact hu
      have hlt : l.countP (fun w => decide (cmp w z < 0)) < n := by
        rw [← hn]
        apply countP_lt_of_imp _ _ _ z hz
        · simpa using hzy
        · simp [h.irrefl z]
        · intro x _ hx; simp at hx ⊢; exact h.trans x z y hx hzy
      obtain ⟨u, hul, huu, huz⟩ := ih _ hlt z rfl this
      exact ⟨u, hul, huu, h.trans u z y huz hzy⟩

/-! ### one insertion -/

/-- an insertion reports acceptance iff no current member dominates the newcomer -/
theorem add_accept_iff {cmp : σ → σ → Int} (h : StrictCmp cmp) (arch : List σ) (s : σ) :
    (archiveAdd cmp arch s).2 = true ↔ ∀ m ∈ arch, ¬ cmp m s < 0 := by
  unfold archiveAdd
  split
  · rename_i hany
    simp only [List.any_eq_true, decide_eq_true_eq] at hany
    obtain ⟨m, hm, hgt⟩ := hany
    simp only [Bool.false_eq_true, false_iff, not_forall]
    exact ⟨m, hm, not_not.mpr ((h.gt_iff s m).mp hgt)⟩
  · rename_i hany
    simp only [List.any_eq_true, decide_eq_true_eq, not_exists, not_and] at hany
    simp only [true_iff]
    intro m hm hlt
    exact hany m hm ((h.gt_iff s m).mpr hlt)

/-- a rejected insertion leaves the archive untouched -/
theorem add_reject_unchanged (cmp : σ → σ → Int) (arch : List σ) (s : σ)
    (hr : (archiveAdd cmp arch s).2 = false) : (archiveAdd cmp arch s).1 = arch := by
  unfold archiveAdd at *
  split <;> simp_all

/-- an accepted insertion keeps exactly the members the newcomer does not dominate, in order,
and appends the newcomer -/
theorem add_accept_contents {cmp : σ → σ → Int} (h : StrictCmp cmp) (arch : List σ) (s : σ)
    (ha : (archiveAdd cmp arch s).2 = true) :
    (archiveAdd cmp arch s).1 = arch.filter (fun m => decide (¬ cmp s m < 0)) ++ [s] := by
  have hno := (add_accept_iff h arch s).mp ha
  unfold archiveAdd at *
  split
  · simp_all
  · simp only [List.append_cancel_right_eq]
    apply List.filter_congr
    intro m hm
    have := h.zero_iff s m
    have := hno m hm
    simp_all

theorem archiveOf_append_singleton (cmp : σ → σ → Int) (pre : List σ) (s : σ) :
    archiveOf cmp (pre ++ [s]) = (archiveAdd cmp (archiveOf cmp pre) s).1 := by
  simp [archiveOf, List.foldl_append]

/-! ### every history -/

/-- **the archive equals the non-dominated subset of everything offered**, as a list (insertion
order, duplicates and equal-objective twins kept) -/
theorem archive_eq_filter {cmp : σ → σ → Int} (h : StrictCmp cmp) (xs : List σ) :
    archiveOf cmp xs = xs.filter (undom cmp xs) := by
  induction xs using List.reverseRecOn with
  | nil => rfl
  | append_singleton pre s ih =>
    rw [archiveOf_append_singleton, ih]
    have hund : ∀ x, undom cmp (pre ++ [s]) x = (undom cmp pre x && decide (¬ cmp s x < 0)) := by
      intro x; simp [undom, List.all_append]
    rw [List.filter_append]
    cases hacc : (archiveAdd cmp (pre.filter (undom cmp pre)) s).2 with
    | false =>
      rw [add_reject_unchanged _ _ _ hacc]
      have hex : ∃ m ∈ pre.filter (undom cmp pre), cmp m s < 0 := by
        by_contra hcon
        have := (add_accept_iff h _ s).mpr (fun m hm hlt => hcon ⟨m, hm, hlt⟩)
        simp_all
      obtain ⟨m, hm, hms⟩ := hex
      have hmpre : m ∈ pre := (List.mem_filter.mp hm).1
      have h1 : pre.filter (undom cmp (pre ++ [s])) = pre.filter (undom cmp pre) := by
        apply List.filter_congr
        intro x _
        rw [hund]
        cases hux : undom cmp pre x with
        | false => rfl
        | true =>
          have : ¬ cmp s x < 0 := fun hsx =>
            (undom_iff cmp pre x).mp hux m hmpre (h.trans m s x hms hsx)
          simp [this]
      have h2 : [s].filter (undom cmp (pre ++ [s])) = [] := by
        have : undom cmp (pre ++ [s]) s = false := by
          rw [Bool.eq_false_iff]; intro hu
          exact (undom_iff _ _ _).mp hu m (List.mem_append_left _ hmpre) hms
        simp [this]
      rw [h1, h2, List.append_nil]
    | true =>
      rw [add_accept_contents h _ _ hacc]
      have hno := (add_accept_iff h _ s).mp hacc
      have hnopre : ∀ y ∈ pre, ¬ cmp y s < 0 := by
        intro y hy hys
        obtain ⟨u, hu, huu, hus⟩ : ∃ u ∈ pre, undom cmp pre u = true ∧ cmp u s < 0 := by
          by_cases hyu : undom cmp pre y = true
          · exact ⟨y, hy, hyu, hys⟩
          · have : ∃ w ∈ pre, cmp w y < 0 := by
              rw [undom_iff] at hyu; push Not at hyu; exact hyu
            obtain ⟨u, hu, huu, huy⟩ := exists_undominated_dominator h pre y this
            exact ⟨u, hu, huu, h.trans u y s huy hys⟩
        exact hno u (List.mem_filter.mpr ⟨hu, huu⟩) hus
      have h1 : (pre.filter (undom cmp pre)).filter (fun m => decide (¬ cmp s m < 0))
          = pre.filter (undom cmp (pre ++ [s])) := by
        rw [List.filter_filter]
        apply List.filter_congr
        intro x _
        rw [hund, Bool.and_comm]
      have h2 : [s].filter (undom cmp (pre ++ [s])) = [s] := by
        have : undom cmp (pre ++ [s]) s = true := by
          rw [undom_iff]
          intro y hy
          rcases List.mem_append.mp hy with hy | hy
          · exact hnopre y hy
          · have : y = s := by simpa using hy
            subst this; simp [h.irrefl]
        simp [this]
      rw [h1, h2]

/-- membership form: exactly those offered solutions that no other offered solution dominates -/
theorem mem_archive_iff {cmp : σ → σ → Int} (h : StrictCmp cmp) (xs : List σ) (x : σ) :
    x ∈ archiveOf cmp xs ↔ x ∈ xs ∧ ∀ y ∈ xs, ¬ cmp y x < 0 := by
  rw [archive_eq_filter h, List.mem_filter, undom_iff]

/-- members are pairwise mutually non-dominated -/
theorem archive_mutually_nondominated {cmp : σ → σ → Int} (h : StrictCmp cmp) (xs : List σ)
    (a b : σ) (ha : a ∈ archiveOf cmp xs) (hb : b ∈ archiveOf cmp xs) : cmp a b = 0 := by
  rw [mem_archive_iff h] at ha hb
  exact (h.zero_iff a b).mpr ⟨hb.2 a ha.1, ha.2 b hb.1⟩

/-- coverage: every offered solution is a member or is dominated by a member -/
theorem archive_coverage {cmp : σ → σ → Int} (h : StrictCmp cmp) (xs : List σ) (x : σ) (hx : x ∈ xs) :
    x ∈ archiveOf cmp xs ∨ ∃ m ∈ archiveOf cmp xs, cmp m x < 0 := by
  by_cases hu : undom cmp xs x = true
  · left; rw [archive_eq_filter h]; exact List.mem_filter.mpr ⟨hx, hu⟩
  · right
    have : ∃ w ∈ xs, cmp w x < 0 := by
      rw [undom_iff] at hu; push Not at hu; exact hu
    obtain ⟨u, hu, huu, hux⟩ := exists_undominated_dominator h xs x this
    exact ⟨u, by rw [archive_eq_filter h]; exact List.mem_filter.mpr ⟨hu, huu⟩, hux⟩

/-- the final membership does not depend on the order of insertion -/
theorem archive_perm_invariant {cmp : σ → σ → Int} (h : StrictCmp cmp) (xs ys : List σ)
    (hp : xs.Perm ys) : (archiveOf cmp xs).Perm (archiveOf cmp ys) := by
  rw [archive_eq_filter h, archive_eq_filter h]
  have : xs.filter (undom cmp xs) = xs.filter (undom cmp ys) := by
    apply List.filter_congr
    intro x _
    rw [Bool.eq_iff_iff, undom_iff, undom_iff]
    exact ⟨fun hh y hy => hh y (hp.mem_iff.mpr hy), fun hh y hy => hh y (hp.mem_iff.mp hy)⟩
  rw [this]
  exact hp.filter _

/-- bulk `extend` / `+=` onto an existing archive is the same fold (by definition), and feeding a
history in two pieces equals feeding it at once -/
theorem extend_eq_fold (cmp : σ → σ → Int) (xs ys : List σ) :
    archiveExtend cmp (archiveOf cmp xs) ys = archiveOf cmp (xs ++ ys) := by
  simp [archiveExtend, archiveOf, List.foldl_append]

/-! ### instance: Pareto dominance (C02) on well-formed solutions -/

section
variable {α : Type} [LinearOrder α] [Neg α] [Zero α]

/-- Pareto comparison restricted to well-formed solutions (those the archive ever sees) -/
theorem pareto_archive_eq_filter (c : Bool) (dirs : List Bool) (xs : List (Sol α))
    (hwf : ∀ x ∈ xs, WF dirs x) :
    archiveOf (paretoCompare c dirs) xs =
      xs.filter (fun x => xs.all (fun y => decide (¬ paretoCompare c dirs y x < 0))) := by
  -- totalise the comparator outside WF so that `StrictCmp` holds globally, then transfer back
  classical
  let cmp' : Sol α → Sol α → Int := fun a b =>
    if WF dirs a ∧ WF dirs b then paretoCompare c dirs a b else 0
  have hs : StrictCmp cmp' := by
    constructor
    · intro x y
      by_cases hx : WF dirs x <;> by_cases hy : WF dirs y <;> simp [cmp', hx, hy]
      exact pareto_antisymm c dirs x y hx hy
    · intro x y z
      by_cases hx : WF dirs x <;> by_cases hy : WF dirs y <;> by_cases hz : WF dirs z <;>
        simp [cmp', hx, hy, hz]
      intro h1 h2
      have e1 : paretoCompare c dirs x y = -1 := by
        rcases pareto_range c dirs x y with e | e | e <;> omega
      have e2 : paretoCompare c dirs y z = -1 := by
        rcases pareto_range c dirs y z with e | e | e <;> omega
      rw [pareto_trans c dirs x y z hx hy hz e1 e2]; decide
  have hagree : ∀ a ∈ xs, ∀ b ∈ xs, cmp' a b = paretoCompare c dirs a b := by
    intro a ha b hb; simp [cmp', hwf a ha, hwf b hb]
  have hfold : ∀ (pre : List (Sol α)), (∀ x ∈ pre, x ∈ xs) →
      archiveOf (paretoCompare c dirs) pre = archiveOf cmp' pre ∧
      ∀ m ∈ archiveOf cmp' pre, m ∈ xs := by
    intro pre
    induction pre using List.reverseRecOn with
    | nil => intro _; exact ⟨rfl, by simp [archiveOf]⟩
    | append_singleton pre s ih =>
      intro hsub
      have hpre : ∀ x ∈ pre, x ∈ xs := fun x hx => hsub x (List.mem_append_left _ hx)
      have hsxs : s ∈ xs := hsub s (by simp)
      obtain ⟨e, hm⟩ := ih hpre
      rw [archiveOf_append_singleton, archiveOf_append_singleton, e]
      have hany : (archiveOf cmp' pre).any (fun m => decide (paretoCompare c dirs s m > 0)) =
          (archiveOf cmp' pre).any (fun m => decide (cmp' s m > 0)) := by
        rw [Bool.eq_iff_iff, List.any_eq_true, List.any_eq_true]
        constructor
        · rintro ⟨m, hmm, hh⟩; exact ⟨m, hmm, by rw [hagree s hsxs m (hm m hmm)]; exact hh⟩
        · rintro ⟨m, hmm, hh⟩; exact ⟨m, hmm, by rw [← hagree s hsxs m (hm m hmm)]; exact hh⟩
      have hfil : (archiveOf cmp' pre).filter (fun m => decide (paretoCompare c dirs s m = 0)) =
          (archiveOf cmp' pre).filter (fun m => decide (cmp' s m = 0)) := by
        apply List.filter_congr
        intro m hmm; rw [hagree s hsxs m (hm m hmm)]
      constructor
      · unfold archiveAdd; rw [hany, hfil]
      · intro m hmem
        unfold archiveAdd at hmem
        split at hmem
        · exact hm m hmem
        · rcases List.mem_append.mp hmem with hmem | hmem
          · exact hm m (List.mem_filter.mp hmem).1
          · have : m = s := by simpa using hmem
            exact this ▸ hsxs
  rw [(hfold xs (fun x hx => hx)).1, archive_eq_filter hs]
  apply List.filter_congr
  intro x hx
  unfold undom
  rw [Bool.eq_iff_iff, List.all_eq_true, List.all_eq_true]
  constructor
  · intro hh y hy; rw [← hagree y hy x hx]; exact hh y hy
  · intro hh y hy; rw [hagree y hy x hx]; exact hh y hy
end

/-! non-vacuity: a history over `Int` with a rejection, an eviction, a twin and a repeat -/
example : (archiveOf (paretoCompare false [false, false])
    [(⟨0, [2, 2], 0⟩ : Sol Int), ⟨1, [3, 3], 0⟩, ⟨2, [1, 3], 0⟩, ⟨3, [1, 1], 0⟩, ⟨4, [1, 1], 0⟩,
     ⟨5, [0, 5], 0⟩]).map (·.id) = [3, 4, 5] := by decide

end Platypus
