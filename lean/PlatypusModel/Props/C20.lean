import PlatypusModel.Model.LinAlg
import Mathlib.Algebra.Order.Field.Basic
import Mathlib.Algebra.BigOperators.Group.List.Basic
import Mathlib.Tactic.Ring
import Mathlib.Tactic.Linarith
import Mathlib.Tactic.LinearCombination
set_option linter.unusedSectionVars false
/-!
# C20 — linear solver and symmetric eigendecomposition

* `lsolve` (the same definition that runs at `Float` against the implementation) is exact over any
  linearly ordered field: a returned `x` satisfies `A x = b`, and a matrix with a non-trivial kernel is
  reported singular instead of producing a result.
* eigendecomposition: what can be a theorem about the floating-point QL iteration is its control
  invariant — the scan for a negligible sub-diagonal element starts at the current row, so the entry that
  is zeroed at the end of iteration `l` was found negligible (the originally pinned scan, starting at 1,
  violates this: witness) — and the algebraic fact that the plane rotations applied to the eigenvector
  matrix preserve orthonormality.  Convergence / accuracy of the floating-point iteration are tied by
  bit-exact correspondence and residual checks, not proved.
-/
namespace Platypus

variable {α : Type} [Field α] [LinearOrder α] [IsStrictOrderedRing α]

def dotL (x y : List α) : α := (List.zipWith (· * ·) x y).sum

/-- `A` is an `n × n` system with right-hand side `b` -/
def Square (n : Nat) (A : List (List α)) (b : List α) : Prop :=
  A.length = n ∧ b.length = n ∧ ∀ r ∈ A, r.length = n

/-! ### helper lemmas -/

@[simp] theorem dotL_nil_left (y : List α) : dotL [] y = 0 := by simp [dotL]
@[simp] theorem dotL_nil_right (x : List α) : dotL x [] = 0 := by simp [dotL]
@[simp] theorem dotL_cons (a b : α) (x y : List α) : dotL (a :: x) (b :: y) = a * b + dotL x y := by
  simp [dotL]

theorem dotL_comm : ∀ (x y : List α), dotL x y = dotL y x
  | [], y => by simp
  | x, [] => by simp
  | a :: x, b :: y => by simp [dotL_comm x y, mul_comm]

theorem dotL_zipWith_left (f : α → α → α) (p q : α) (hf : ∀ a b, f a b = p * a + q * b) :
    ∀ (u v w : List α), u.length = v.length →
      dotL (List.zipWith f u v) w = p * dotL u w + q * dotL v w
  | [], [], w, _ => by simp
  | [], _ :: _, _, h => by simp at h
  | _ :: _, [], _, h => by simp at h
  | a :: u, b :: v, [], _ => by simp
  | a :: u, b :: v, c :: w, h => by
    have := dotL_zipWith_left f p q hf u v w (by simpa using h)
    simp only [List.zipWith_cons_cons, dotL_cons, this, hf]; ring

theorem dotL_zipWith_right (f : α → α → α) (p q : α) (hf : ∀ a b, f a b = p * a + q * b)
    (u v w : List α) (h : u.length = v.length) :
      dotL w (List.zipWith f u v) = p * dotL w u + q * dotL w v := by
  rw [dotL_comm, dotL_zipWith_left f p q hf u v w h, dotL_comm u, dotL_comm v]

theorem findSmall_aux (tol : α) (e : List α) : ∀ (fuel l : Nat), l ≤ e.length → e.length - l < fuel →
    l ≤ findSmall tol e fuel l ∧ findSmall tol e fuel l ≤ e.length ∧
    (findSmall tol e fuel l < e.length → absL (e.getD (findSmall tol e fuel l) 0) ≤ tol) ∧
    ∀ j, l ≤ j → j < findSmall tol e fuel l → tol < absL (e.getD j 0)
  | 0, l, _, h => by omega
  | fuel + 1, l, hl, hf => by
    unfold findSmall
    by_cases h1 : l < e.length
    · by_cases h2 : absL (e.getD l 0) ≤ tol
      · rw [if_pos h1, if_pos h2]
        exact ⟨le_refl _, hl, fun _ => h2, fun j a b => by omega⟩
      · rw [if_pos h1, if_neg h2]
        obtain ⟨a, b, c, d⟩ := findSmall_aux tol e fuel (l + 1) (by omega) (by omega)
        refine ⟨by omega, b, c, fun j hj hj' => ?_⟩
        rcases Nat.eq_or_lt_of_le hj with rfl | hlt
        · exact not_le.mp h2
        · exact d j hlt hj'
    · rw [if_neg h1]
      exact ⟨le_refl _, hl, fun h => absurd h h1, fun j a b => by omega⟩

/-! #### Gaussian elimination -/

theorem perm_cons_set {β : Type} (x y : β) : ∀ (t : List β) (k : Nat), t[k]? = some y →
    (y :: t.set k x).Perm (x :: t)
  | [], k, h => by simp at h
  | a :: t, 0, h => by
    simp only [List.getElem?_cons_zero, Option.some.injEq] at h
    subst h
    simpa using List.Perm.swap x a t
  | a :: t, k + 1, h => by
    simp only [List.getElem?_cons_succ] at h
    have ih := perm_cons_set x y t k h
    simp only [List.set_cons_succ]
    exact ((List.Perm.swap a y _).trans ((ih.cons a).trans (List.Perm.swap x a t)))

theorem swapFront_perm {β : Type} (k : Nat) (l : List β) : (swapFront k l).Perm l := by
  unfold swapFront
  split
  · rename_i x t y h
    split
    · exact List.Perm.refl _
    · rename_i hk
      obtain ⟨k', rfl⟩ := Nat.exists_eq_succ_of_ne_zero hk
      simp only [List.getElem?_cons_succ] at h
      simp only [List.drop_one, List.tail_cons, List.set_cons_succ]
      exact perm_cons_set x y t k' h
  · exact List.Perm.refl _

theorem absL_ne_zero (eps x : α) (heps : 0 ≤ eps) (h : ¬ absL x ≤ eps) : x ≠ 0 := by
  rintro rfl
  apply h
  simpa [absL] using heps

theorem drop_zipIdx' {β : Type} : ∀ (l : List β) (k d : Nat), (l.zipIdx k).drop d = (l.drop d).zipIdx (k + d)
  | [], k, d => by simp
  | a :: l, k, 0 => by simp
  | a :: l, k, d + 1 => by
    simp only [List.zipIdx_cons, List.drop_succ_cons, drop_zipIdx' l (k + 1) d]
    congr 1; omega

theorem elim_dot_aux (alpha : α) (Q : List α) (p : Nat) : ∀ (l q : List α) (k : Nat) (zs : List α),
    p ≤ k → l.length = q.length → Q.drop k = q →
    dotL ((l.zipIdx k).map (fun (v, j) => if p ≤ j then v - alpha * Q.getD j 0 else v)) zs
      = dotL l zs - alpha * dotL q zs
  | [], [], k, zs, _, _, _ => by simp
  | [], _ :: _, _, _, _, h, _ => by simp at h
  | _ :: _, [], _, _, _, h, _ => by simp at h
  | v :: l, w :: q, k, [], _, _, _ => by simp
  | v :: l, w :: q, k, z :: zs, hk, hlen, hq => by
    have hk' : k < Q.length := by
      by_contra hc
      rw [List.drop_eq_nil_of_le (by omega)] at hq
      cases hq
    rw [List.drop_eq_getElem_cons hk'] at hq
    injection hq with h1 h2
    have ih := elim_dot_aux alpha Q p l q (k + 1) zs (by omega) (by simpa using hlen) h2
    simp only [List.zipIdx_cons, List.map_cons, dotL_cons, ih, if_pos hk]
    have : Q.getD k 0 = w := by
      rw [List.getD_eq_getElem?_getD, List.getElem?_eq_getElem hk']; simpa using h1
    rw [this]; ring

theorem eliminate_dot (p : Nat) (piv r : Row α) (zs : List α) (hlen : r.a.length = piv.a.length) :
    dotL ((eliminate p piv r).a.drop p) zs
      = dotL (r.a.drop p) zs - (r.a.getD p 0 / piv.a.getD p 0) * dotL (piv.a.drop p) zs := by
  unfold eliminate
  simp only [← List.map_drop, drop_zipIdx', Nat.zero_add]
  exact elim_dot_aux _ piv.a p (r.a.drop p) (piv.a.drop p) p zs (le_refl _) (by simp [hlen]) rfl

theorem eliminate_length (p : Nat) (piv r : Row α) : (eliminate p piv r).a.length = r.a.length := by
  simp [eliminate]

theorem dotL_drop_cons (a : List α) (p : Nat) (z : α) (zs : List α) :
    dotL (a.drop p) (z :: zs) = a.getD p 0 * z + dotL (a.drop (p + 1)) zs := by
  by_cases h : p < a.length
  · rw [List.drop_eq_getElem_cons h, dotL_cons, List.getD_eq_getElem?_getD, List.getElem?_eq_getElem h]
    simp
  · rw [List.drop_eq_nil_of_le (by omega), List.drop_eq_nil_of_le (by omega),
      List.getD_eq_getElem?_getD, List.getElem?_eq_none (by omega)]
    simp

theorem eliminate_getD (p : Nat) (piv r : Row α) (hlen : r.a.length = piv.a.length)
    (hp : piv.a.getD p 0 ≠ 0) : (eliminate p piv r).a.getD p 0 = 0 := by
  have h := eliminate_dot p piv r [1] hlen
  simp only [dotL_drop_cons, dotL_nil_right, mul_one, add_zero] at h
  rw [h, div_mul_cancel₀ _ hp, sub_self]

theorem forwardElim_ok_step (eps : α) (fuel p : Nat) (r : Row α) (rs tri : List (Row α))
    (h : forwardElim eps fuel p (r :: rs) = .ok tri) :
    ∃ fuel' piv others tail, fuel = fuel' + 1 ∧ (piv :: others).Perm (r :: rs) ∧
      ¬ absL (piv.a.getD p 0) ≤ eps ∧
      forwardElim eps fuel' (p + 1) (others.map (eliminate p piv)) = .ok tail ∧ tri = piv :: tail := by
  cases fuel with
  | zero => simp [forwardElim] at h
  | succ fuel =>
    rw [forwardElim] at h
    have hperm := swapFront_perm (argmaxAbs p (r :: rs)) (r :: rs)
    split at h
    · rename_i heq
      rw [heq] at hperm
      simp at hperm
    · rename_i piv others heq
      rw [heq] at hperm
      split at h
      · cases h
      · rename_i hguard
        cases hrec : forwardElim eps fuel (p + 1) (others.map (eliminate p piv)) with
        | error e => rw [hrec] at h; cases h
        | ok tail =>
          rw [hrec] at h
          refine ⟨fuel, piv, others, tail, rfl, hperm, hguard, hrec, ?_⟩
          cases h; rfl

theorem forwardElim_error (eps : α) : ∀ (fuel p : Nat) (rows : List (Row α)) (e : LErr),
    rows.length ≤ fuel → forwardElim eps fuel p rows = .error e → e = .singular
  | _, _, [], e, _, h => by simp [forwardElim] at h
  | 0, _, _ :: _, _, hf, _ => by simp at hf
  | fuel + 1, p, r :: rs, e, hf, h => by
    rw [forwardElim] at h
    have hperm := swapFront_perm (argmaxAbs p (r :: rs)) (r :: rs)
    split at h
    · cases h
    · rename_i piv others heq
      rw [heq] at hperm
      have hlen := hperm.length_eq
      split at h
      · cases h; rfl
      · cases hrec : forwardElim eps fuel (p + 1) (others.map (eliminate p piv)) with
        | error e' =>
          rw [hrec] at h
          have := forwardElim_error eps fuel (p + 1) _ e' (by simp at hlen hf ⊢; omega) hrec
          cases h; exact this
        | ok tail => rw [hrec] at h; cases h

theorem forwardElim_nil (eps : α) (fuel p : Nat) : forwardElim eps fuel p ([] : List (Row α)) = .ok [] := by
  cases fuel <;> simp [forwardElim]

theorem foldl_zip_dot : ∀ (l xs : List α) (s : α),
    (l.zip xs).foldl (fun s p => s + p.1 * p.2) s = s + dotL l xs
  | [], xs, s => by simp
  | _ :: _, [], s => by simp
  | a :: l, x :: xs, s => by
    simp only [List.zip_cons_cons, List.foldl_cons, foldl_zip_dot l xs, dotL_cons]; ring

theorem backSub_cons (i : Nat) (r : Row α) (rs : List (Row α)) :
    backSub i (r :: rs) =
      ((r.b - dotL (r.a.drop (i + 1)) (backSub (i + 1) rs)) / r.a.getD i 0) :: backSub (i + 1) rs := by
  simp only [backSub, foldl_zip_dot, zero_add]

theorem dotL_zero_right : ∀ (l ys : List α), (∀ v ∈ ys, v = 0) → dotL l ys = 0
  | [], ys, _ => by simp
  | _ :: _, [], _ => by simp
  | a :: l, y :: ys, h => by
    rw [dotL_cons, h y (by simp), dotL_zero_right l ys (fun v hv => h v (by simp [hv]))]; simp

theorem forwardElim_pivots' (eps : α) : ∀ (fuel p : Nat) (rows tri : List (Row α)),
    forwardElim eps fuel p rows = .ok tri →
    tri.length = rows.length ∧
      ∀ k (_ : k < tri.length), eps < absL ((tri.getD k ⟨[], 0⟩).a.getD (p + k) 0) := by
  intro fuel
  induction fuel with
  | zero =>
    intro p rows tri h
    cases rows with
    | nil => rw [forwardElim_nil] at h; cases h; simp
    | cons r rs => obtain ⟨f', _, _, _, hf, _⟩ := forwardElim_ok_step eps 0 p r rs tri h; omega
  | succ fuel ih =>
    intro p rows tri h
    cases rows with
    | nil => rw [forwardElim_nil] at h; cases h; simp
    | cons r rs =>
      obtain ⟨f', piv, others, tail, hf, hperm, hg, hrec, rfl⟩ := forwardElim_ok_step eps _ p r rs tri h
      obtain rfl : fuel = f' := by omega
      obtain ⟨h1, h2⟩ := ih (p + 1) _ tail hrec
      have hlen := hperm.length_eq
      simp only [List.length_cons, List.length_map] at hlen h1 ⊢
      refine ⟨by omega, fun k hk => ?_⟩
      cases k with
      | zero => simpa using not_le.mp hg
      | succ k =>
        have := h2 k (by omega)
        simpa [Nat.add_assoc, Nat.add_comm 1 k] using this

theorem forwardElim_sound (eps : α) (heps : 0 ≤ eps) : ∀ (fuel p : Nat) (rows tri : List (Row α)),
    forwardElim eps fuel p rows = .ok tri → (∀ r ∈ rows, r.a.length = p + rows.length) →
    (backSub p tri).length = rows.length ∧ ∀ r ∈ rows, dotL (r.a.drop p) (backSub p tri) = r.b := by
  intro fuel
  induction fuel with
  | zero =>
    intro p rows tri h _
    cases rows with
    | nil => rw [forwardElim_nil] at h; cases h; simp [backSub]
    | cons r rs => obtain ⟨f', _, _, _, hf, _⟩ := forwardElim_ok_step eps 0 p r rs tri h; omega
  | succ fuel ih =>
    intro p rows tri h hlens
    cases rows with
    | nil => rw [forwardElim_nil] at h; cases h; simp [backSub]
    | cons r0 rs =>
      obtain ⟨f', piv, others, tail, hf, hperm, hg, hrec, rfl⟩ := forwardElim_ok_step eps _ p r0 rs tri h
      obtain rfl : fuel = f' := by omega
      have hlen := hperm.length_eq
      simp only [List.length_cons] at hlen
      have hlens' : ∀ r ∈ piv :: others, r.a.length = p + (others.length + 1) := by
        intro r hr
        rw [hlens r (hperm.subset hr)]; simp [hlen]
      have hpiv : piv.a.getD p 0 ≠ 0 := absL_ne_zero eps _ heps hg
      obtain ⟨h1, h2⟩ := ih (p + 1) _ tail hrec (by
        intro r' hr'
        obtain ⟨r, hr, rfl⟩ := List.mem_map.mp hr'
        rw [eliminate_length, hlens' r (by simp [hr])]; simp; omega)
      rw [backSub_cons]
      set xs := backSub (p + 1) tail with hxs
      have hpiveq : dotL (piv.a.drop p) (((piv.b - dotL (piv.a.drop (p + 1)) xs) / piv.a.getD p 0) :: xs) = piv.b := by
        rw [dotL_drop_cons, mul_div_cancel₀ _ hpiv]; ring
      simp only [List.length_map] at h1
      refine ⟨by simp [h1, hlen], fun r hr => ?_⟩
      have hr' := hperm.symm.subset hr
      rcases List.mem_cons.mp hr' with rfl | hro
      · exact hpiveq
      · have hll : r.a.length = piv.a.length := by
          rw [hlens' r hr', hlens' piv (by simp)]
        have e1 := eliminate_dot p piv r (((piv.b - dotL (piv.a.drop (p + 1)) xs) / piv.a.getD p 0) :: xs) hll
        rw [hpiveq, dotL_drop_cons, eliminate_getD p piv r hll hpiv,
          h2 _ (List.mem_map_of_mem hro)] at e1
        have : (eliminate p piv r).b = r.b - r.a.getD p 0 / piv.a.getD p 0 * piv.b := rfl
        rw [this] at e1
        linear_combination -e1

theorem forwardElim_kernel (eps : α) (heps : 0 ≤ eps) : ∀ (fuel p : Nat) (rows tri : List (Row α)) (ys : List α),
    forwardElim eps fuel p rows = .ok tri → (∀ r ∈ rows, r.a.length = p + rows.length) →
    ys.length = rows.length → (∀ r ∈ rows, dotL (r.a.drop p) ys = 0) → ∀ v ∈ ys, v = 0 := by
  intro fuel
  induction fuel with
  | zero =>
    intro p rows tri ys h _ hy _
    cases rows with
    | nil => simp at hy; simp [hy]
    | cons r rs => obtain ⟨f', _, _, _, hf, _⟩ := forwardElim_ok_step eps 0 p r rs tri h; omega
  | succ fuel ih =>
    intro p rows tri ys h hlens hy hker
    cases rows with
    | nil => simp at hy; simp [hy]
    | cons r0 rs =>
      obtain ⟨f', piv, others, tail, hf, hperm, hg, hrec, rfl⟩ := forwardElim_ok_step eps _ p r0 rs tri h
      obtain rfl : fuel = f' := by omega
      have hlen := hperm.length_eq
      simp only [List.length_cons] at hlen
      have hlens' : ∀ r ∈ piv :: others, r.a.length = p + (others.length + 1) := by
        intro r hr
        rw [hlens r (hperm.subset hr)]; simp [hlen]
      have hpiv : piv.a.getD p 0 ≠ 0 := absL_ne_zero eps _ heps hg
      cases ys with
      | nil => simp at hy
      | cons y0 ys =>
        have hk0 := hker piv (hperm.subset (by simp))
        have hys : ∀ v ∈ ys, v = 0 := by
          refine ih (p + 1) _ tail ys hrec ?_ (by simp at hy ⊢; omega) ?_
          · intro r' hr'
            obtain ⟨r, hr, rfl⟩ := List.mem_map.mp hr'
            rw [eliminate_length, hlens' r (by simp [hr])]; simp; omega
          · intro r' hr'
            obtain ⟨r, hr, rfl⟩ := List.mem_map.mp hr'
            have hll : r.a.length = piv.a.length := by
              rw [hlens' r (by simp [hr]), hlens' piv (by simp)]
            have e1 := eliminate_dot p piv r (y0 :: ys) hll
            rw [hk0, hker r (hperm.subset (by simp [hr])), dotL_drop_cons,
              eliminate_getD p piv r hll hpiv] at e1
            simpa using e1
        rw [dotL_drop_cons, dotL_zero_right _ ys hys, add_zero] at hk0
        intro v hv
        rcases List.mem_cons.mp hv with rfl | hv
        · exact (mul_eq_zero.mp hk0).resolve_left hpiv
        · exact hys v hv

/-- the augmented rows `lsolve` works on -/
def mkRows (A : List (List α)) (b : List α) : List (Row α) :=
  (A.zip b).map (fun p => ({ a := p.1, b := p.2 } : Row α))

theorem lsolve_eq (eps : α) (A : List (List α)) (b : List α) :
    lsolve eps A b = (forwardElim eps (mkRows A b).length 0 (mkRows A b)).map (backSub 0) := by
  unfold lsolve mkRows
  dsimp only
  generalize forwardElim eps _ 0 _ = res
  cases res <;> rfl

theorem mkRows_length (n : Nat) (A : List (List α)) (b : List α) (hsq : Square n A b) :
    (mkRows A b).length = n := by
  obtain ⟨h1, h2, _⟩ := hsq
  simp [mkRows, h1, h2]

theorem mkRows_mem (A : List (List α)) (b : List α) :
    ∀ r ∈ mkRows A b, r.a ∈ A := by
  intro r hr
  obtain ⟨⟨a, c⟩, hp, rfl⟩ := List.mem_map.mp hr
  exact (List.of_mem_zip hp).1

theorem mkRows_lens (n : Nat) (A : List (List α)) (b : List α) (hsq : Square n A b) :
    ∀ r ∈ mkRows A b, r.a.length = 0 + (mkRows A b).length := by
  intro r hr
  rw [mkRows_length n A b hsq, hsq.2.2 _ (mkRows_mem A b r hr), Nat.zero_add]

/-- **exactness**: whatever `lsolve` returns satisfies every equation of the system -/
theorem lsolve_exact (eps : α) (heps : 0 ≤ eps) (n : Nat) (A : List (List α)) (b x : List α)
    (hsq : Square n A b) (h : lsolve eps A b = .ok x) :
    x.length = n ∧ ∀ i (hi : i < n), dotL (A.getD i []) x = b.getD i 0 := by
  rw [lsolve_eq] at h
  cases hfe : forwardElim eps (mkRows A b).length 0 (mkRows A b) with
  | error e => rw [hfe] at h; cases h
  | ok tri =>
    rw [hfe] at h
    obtain rfl : backSub 0 tri = x := by cases h; rfl
    obtain ⟨h1, h2⟩ := forwardElim_sound eps heps _ 0 _ tri hfe (mkRows_lens n A b hsq)
    rw [mkRows_length n A b hsq] at h1
    refine ⟨h1, fun i hi => ?_⟩
    obtain ⟨hA, hb, _⟩ := hsq
    have hmem : (⟨A.getD i [], b.getD i 0⟩ : Row α) ∈ mkRows A b := by
      refine List.mem_map.mpr ⟨(A.getD i [], b.getD i 0), ?_, rfl⟩
      rw [List.mem_iff_getElem]
      refine ⟨i, by simp [hA, hb, hi], ?_⟩
      simp [List.getD_eq_getElem?_getD, hA, hb, hi]
    simpa using h2 _ hmem

/-- a matrix with a non-trivial kernel is never "solved": singularity is signalled -/
theorem lsolve_singular (eps : α) (heps : 0 ≤ eps) (n : Nat) (A : List (List α)) (b : List α)
    (hsq : Square n A b) (y : List α) (hy : y.length = n) (hy0 : ∃ v ∈ y, v ≠ 0)
    (hker : ∀ r ∈ A, dotL r y = 0) : lsolve eps A b = .error .singular := by
  rw [lsolve_eq]
  cases hfe : forwardElim eps (mkRows A b).length 0 (mkRows A b) with
  | error e =>
    rw [forwardElim_error eps _ 0 _ e (le_refl _) hfe]; rfl
  | ok tri =>
    exfalso
    obtain ⟨v, hv, hv0⟩ := hy0
    refine hv0 (forwardElim_kernel eps heps _ 0 _ tri y hfe (mkRows_lens n A b hsq)
      (by rw [mkRows_length n A b hsq, hy]) ?_ v hv)
    intro r hr
    simpa using hker _ (mkRows_mem A b r hr)

/-- the pivot guard: a returned solution means every pivot met was larger than `eps` in magnitude -/
theorem forwardElim_pivots (eps : α) (fuel p : Nat) (rows tri : List (Row α))
    (h : forwardElim eps fuel p rows = .ok tri) :
    tri.length = rows.length ∧ ∀ k (hk : k < tri.length), eps < absL ((tri.getD k ⟨[], 0⟩).a.getD (p + k) 0) := by
  exact forwardElim_pivots' eps fuel p rows tri h

/-! ### QL iteration: the scan -/

/-- the scan started at `l` returns the first index `m ≥ l` whose sub-diagonal entry is negligible -/
theorem findSmall_spec (tol : α) (e : List α) (l : Nat) (hl : l ≤ e.length) :
    let m := findSmall tol e (e.length - l + 1) l
    l ≤ m ∧ m ≤ e.length ∧ (m < e.length → absL (e.getD m 0) ≤ tol) ∧
    ∀ j, l ≤ j → j < m → tol < absL (e.getD j 0) := by
  exact findSmall_aux tol e _ l hl (by omega)

/-- control invariant of the repaired `tql2`: when the scan from `l` returns `m = l` (no iteration is
performed and `e[l]` is set to 0) the entry was negligible -/
theorem ql_deflation_sound (tol : α) (e : List α) (l : Nat) (hl : l < e.length)
    (hm : findSmall tol e (e.length - l + 1) l = l) : absL (e.getD l 0) ≤ tol := by
  have h := (findSmall_spec tol e l hl.le).2.2.1
  simp only [hm] at h
  exact h hl

/-- the originally pinned scan started at index 1 regardless of `l`: it can stop before `l` and make
`tql2` skip the iteration for a row whose sub-diagonal entry is not negligible (witness over ℚ is in the
example below) -/
theorem pinned_scan_unsound :
    ∃ (e : List Int) (l : Nat), l < e.length ∧ ¬ (findSmall (0 : Int) e (e.length + 1) 1 > l) ∧ (0 : Int) < absL (e.getD l 0) := by
  refine ⟨[5, 0, 7, 0], 2, by decide, by decide, by decide⟩

/-! ### plane rotations preserve orthonormality -/

/-- the column update of `tql2`: `(vᵢ, vᵢ₊₁) ↦ (c·vᵢ − s·vᵢ₊₁, s·vᵢ + c·vᵢ₊₁)` with `c² + s² = 1` maps an
orthonormal pair of columns to an orthonormal pair and keeps both orthogonal to every other column
(so `VᵀV = I` is preserved by every rotation of the QL iteration) -/
theorem rotation_preserves_orthonormal (c s : α) (hcs : c * c + s * s = 1) (u v w : List α)
    (hl : u.length = v.length) (hlw : w.length = u.length)
    (huu : dotL u u = 1) (hvv : dotL v v = 1) (huv : dotL u v = 0) (huw : dotL u w = 0) (hvw : dotL v w = 0) :
    let u' := List.zipWith (fun a b => c * a - s * b) u v
    let v' := List.zipWith (fun a b => s * a + c * b) u v
    dotL u' u' = 1 ∧ dotL v' v' = 1 ∧ dotL u' v' = 0 ∧ dotL u' w = 0 ∧ dotL v' w = 0 := by
  intro u' v'
  have hf : ∀ a b : α, (fun a b => c * a - s * b) a b = c * a + (-s) * b := by intro a b; ring
  have hg : ∀ a b : α, (fun a b => s * a + c * b) a b = s * a + c * b := by intro a b; rfl
  have hvu : dotL v u = 0 := by rw [dotL_comm]; exact huv
  have Lu := fun w => dotL_zipWith_left _ c (-s) hf u v w hl
  have Lv := fun w => dotL_zipWith_left _ s c hg u v w hl
  have Ru := fun w => dotL_zipWith_right _ c (-s) hf u v w hl
  have Rv := fun w => dotL_zipWith_right _ s c hg u v w hl
  refine ⟨?_, ?_, ?_, ?_, ?_⟩
  · show dotL u' u' = 1
    rw [Lu, Ru, Ru, huu, hvv, huv, hvu]; linear_combination hcs
  · rw [Lv, Rv, Rv, huu, hvv, huv, hvu]; linear_combination hcs
  · rw [Lu, Rv, Rv, huu, hvv, huv, hvu]; ring
  · rw [Lu, huw, hvw]; ring
  · rw [Lv, huw, hvw]; ring

end Platypus
