import PlatypusModel.Props.C05
/-
C05, repaired comparator.  `EpsilonDominance.compare` now asks `ParetoDominance` first when both solutions lie
in one box.  Two facts:

* over an ordered field with exact floor the repaired comparator *is* the pinned one (`epsCompareP_eq`), so every
  theorem of `Props/C05.lean` about `epsCompare` is a theorem about the repaired code;
* for **any** scalar type, floor and squaring functions — in particular IEEE doubles with their rounding — the
  repaired comparator never contradicts Pareto dominance, provided only that the box index is monotone
  (`o ≤ o' → ¬ idx o' < idx o`), which correctly rounded division followed by `floor` satisfies
  (`epsCompareP_respects_pareto_any`).  This is the clause the pinned comparator violated on doubles whose
  corner distances round to the same value.
-/
namespace Platypus
open Platypus

section exact
variable {α : Type} [Field α] [LinearOrder α] [IsStrictOrderedRing α] [FloorRing α]

/-- in exact arithmetic the repaired comparator equals the pinned one -/
theorem epsCompareP_eq (c : Bool) (dirs : List Bool) (eps : List α) (a b : Sol α)
    (ha : WFe dirs eps a) (hb : WFe dirs eps b) :
    epsCompareP flE sqE c dirs eps a b = epsCompare flE sqE c dirs eps a b := by
  have hr := eps_respects_pareto c dirs eps a b ha hb
  have hrange := pareto_range c dirs a b
  simp only [epsCmpE] at hr
  unfold epsCompareP epsCompare at *
  cases hcv : cvBlock c a.cv b.cv with
  | some r => rfl
  | none =>
    simp only [hcv] at hr ⊢
    cases hbs : boxScan flE dirs eps a.objs b.objs false false with
    | incomparable => rfl
    | first => rfl
    | second => rfl
    | same =>
      simp only [hbs] at hr ⊢
      rcases hrange with h | h | h
      · rw [hr.1 h]; simp [h]
      · simp [h]
      · rw [hr.2 h]; simp [h]

/-- hence it, too, never contradicts Pareto dominance in exact arithmetic -/
theorem epsP_respects_pareto (c : Bool) (dirs : List Bool) (eps : List α) (a b : Sol α)
    (ha : WFe dirs eps a) (hb : WFe dirs eps b) :
    (paretoCompare c dirs a b = -1 → epsCompareP flE sqE c dirs eps a b = -1) ∧
    (paretoCompare c dirs a b = 1 → epsCompareP flE sqE c dirs eps a b = 1) := by
  rw [epsCompareP_eq c dirs eps a b ha hb]
  exact eps_respects_pareto c dirs eps a b ha hb
end exact

section anyScalar
variable {α : Type} [LinearOrder α] [Neg α] [OfNat α 0] [Sub α] [Mul α] [Div α] [Add α]

/-- the hypothesis that IEEE doubles satisfy: the box index `floor(o / ε)` of a direction-adjusted value is
monotone in `o` (correctly rounded division by a positive ε and `floor` are both monotone) -/
def MonoIdx (fl : α → α) (eps : List α) : Prop :=
  ∀ e ∈ eps, ∀ x y : α, x ≤ y → ¬ (boxIdx fl e y < boxIdx fl e x)

omit [Neg α] [OfNat α 0] [Sub α] [Mul α] [Add α] in
theorem c05f_monoIdx_epsNext (fl : α → α) (e : α) (es : List α) (hm : MonoIdx fl (e :: es)) :
    MonoIdx fl (epsNext (e :: es)) := by
  cases es with
  | nil => simpa [epsNext] using hm
  | cons e' es =>
    intro x hx
    exact hm x (List.mem_cons_of_mem _ (by simpa [epsNext] using hx))

omit [OfNat α 0] [Sub α] [Mul α] [Add α] in
/-- no worse in every objective ⇒ the flag loop never raises the second flag -/
theorem c05f_boxScan_of_allLe (fl : α → α) (ds : List Bool) (es xs ys : List α) (d1 : Bool)
    (hm : MonoIdx fl es) (h : AllLe ds xs ys) :
    boxScan fl ds es xs ys d1 false = .first ∨ boxScan fl ds es xs ys d1 false = .same := by
  induction ds generalizing es xs ys d1 with
  | nil => cases d1 <;> simp [boxScan]
  | cons d ds ih =>
    cases es with
    | nil => cases d1 <;> simp [boxScan]
    | cons e es =>
      cases xs with
      | nil => cases d1 <;> simp [boxScan]
      | cons x xs =>
        cases ys with
        | nil => cases d1 <;> simp [boxScan]
        | cons y ys =>
          simp only [AllLe] at h
          have hn : ¬ boxIdx fl e (adj d y) < boxIdx fl e (adj d x) :=
            hm e (List.mem_cons_self ..) _ _ h.1
          have hm' := c05f_monoIdx_epsNext fl e es hm
          simp only [boxScan, hn, if_false, Bool.false_eq_true]
          split
          · exact ih _ xs ys true hm' h.2
          · exact ih _ xs ys d1 hm' h.2

omit [OfNat α 0] [Sub α] [Mul α] [Add α] in
/-- mirrored: the first flag is never raised -/
theorem c05f_boxScan_of_allGe (fl : α → α) (ds : List Bool) (es xs ys : List α) (d2 : Bool)
    (hm : MonoIdx fl es) (h : AllLe ds ys xs) :
    boxScan fl ds es xs ys false d2 = .second ∨ boxScan fl ds es xs ys false d2 = .same := by
  induction ds generalizing es xs ys d2 with
  | nil => cases d2 <;> simp [boxScan]
  | cons d ds ih =>
    cases es with
    | nil => cases d2 <;> simp [boxScan]
    | cons e es =>
      cases xs with
      | nil => cases d2 <;> simp [boxScan]
      | cons x xs =>
        cases ys with
        | nil => cases d2 <;> simp [boxScan]
        | cons y ys =>
          simp only [AllLe] at h
          have hn : ¬ boxIdx fl e (adj d x) < boxIdx fl e (adj d y) :=
            hm e (List.mem_cons_self ..) _ _ h.1
          have hm' := c05f_monoIdx_epsNext fl e es hm
          simp only [boxScan, hn, if_false, Bool.false_eq_true]
          split
          · exact ih _ xs ys true hm' h.2
          · exact ih _ xs ys d2 hm' h.2

/-- the repaired comparator never contradicts Pareto dominance, whatever the arithmetic -/
theorem epsCompareP_respects_pareto_any (fl sq : α → α) (c : Bool) (dirs : List Bool) (eps : List α) (a b : Sol α)
    (hm : MonoIdx fl eps) :
    (paretoCompare c dirs a b = -1 → epsCompareP fl sq c dirs eps a b = -1) ∧
    (paretoCompare c dirs a b = 1 → epsCompareP fl sq c dirs eps a b = 1) := by
  unfold epsCompareP
  cases hcv : cvBlock c a.cv b.cv with
  | some r =>
    have hp : paretoCompare c dirs a b = r := by unfold paretoCompare; rw [hcv]
    rw [hp]; exact ⟨id, id⟩
  | none =>
    have hp : paretoCompare c dirs a b = scan dirs a.objs b.objs false false := by
      unfold paretoCompare; rw [hcv]
    constructor
    · intro h
      have hs := h
      rw [hp, scan_neg_one_iff] at hs
      rcases c05f_boxScan_of_allLe fl dirs eps a.objs b.objs false hm hs.2.1 with hb | hb
      · simp only [hb]
      · simp only [hb, h]; rfl
    · intro h
      have hs := h
      rw [hp, scan_one_iff] at hs
      rcases c05f_boxScan_of_allGe fl dirs eps a.objs b.objs false hm hs.2.1 with hb | hb
      · simp only [hb]
      · simp only [hb, h]; rfl
end anyScalar

end Platypus
