import PlatypusModel.Model.Indicators
import PlatypusModel.Lemmas.Hypervolume
import Mathlib.Algebra.Order.Field.Basic
import Mathlib.Data.List.Perm.Basic
import Mathlib.Tactic.Linarith
import Mathlib.Tactic.Ring
set_option linter.unusedSectionVars false
/-!
# C15 — hypervolume is the exact dominated volume

After normalisation, clipping and inversion every point lies in `[0,1]^d` and "larger is better": the
dominated region is the union of the boxes `[0, p]`.  Its volume is specified by slicing along the last
coordinate (Fubini): `hvRec`.  The imperative slicing algorithm on an array prefix with swaps
(`calcInternal`, transcribed from the source) is proved equal to that specification, and the
specification is shown to have the properties the statement lists (bounds, order / duplicate /
dominated-point invariance, monotonicity).
-/
namespace Platypus

variable {α : Type} [Field α] [LinearOrder α] [IsStrictOrderedRing α]

/-- volume of `⋃ₚ [0,p]` using the first `d` coordinates, by slicing along coordinate `d-1`:
`hvRec 1 P = max p₀`; `hvRec (d+1) P = Σⱼ (tⱼ − tⱼ₋₁) · hvRec d {p | p_d ≥ tⱼ}` over the distinct heights
`t₁ < … < t_m` of coordinate `d`, with `t₀ = 0`.  Implemented as: take the smallest height `t` among the
points, account for the slab `(prev, t]`, continue with the points strictly above `t`. -/
def hvSlices (rec : List (List α) → α) (k : Nat) : Nat → List (List α) → α → α
  | 0, _, _ => 0
  | fuel + 1, pts, prev =>
    match pts with
    | [] => 0
    | p :: ps =>
      let t := (ps.map (fun q => q.getD k 0)).foldl min (p.getD k 0)
      (t - prev) * rec (p :: ps) + hvSlices rec k fuel ((p :: ps).filter (fun q => t < q.getD k 0)) t

def hvRec : Nat → List (List α) → α
  | 0, _ => 0
  | 1, pts => (pts.map (fun q => q.getD 0 0)).foldl max 0
  | d + 2, pts => hvSlices (hvRec (d + 1)) (d + 1) (pts.length + 1) pts 0

/-- points of the unit cube with at least `d` coordinates -/
def InCube (d : Nat) (pts : List (List α)) : Prop :=
  ∀ p ∈ pts, d ≤ p.length ∧ ∀ x ∈ p, 0 ≤ x ∧ x ≤ 1


/-! ### auxiliary lemmas on the specification -/

section spec

theorem foldl_min_le_init (l : List α) (a : α) : l.foldl min a ≤ a := by
  induction l generalizing a with
  | nil => exact le_refl _
  | cons x xs ih => exact le_trans (ih _) (min_le_left _ _)

theorem foldl_min_le_mem (l : List α) (a : α) : ∀ x ∈ l, l.foldl min a ≤ x := by
  induction l generalizing a with
  | nil => intro x hx; cases hx
  | cons y ys ih =>
    intro x hx
    rcases List.mem_cons.1 hx with rfl | hx
    · exact le_trans (foldl_min_le_init ys (min a x)) (min_le_right _ _)
    · exact ih _ x hx

theorem foldl_min_mem (l : List α) (a : α) : l.foldl min a = a ∨ l.foldl min a ∈ l := by
  induction l generalizing a with
  | nil => exact Or.inl rfl
  | cons y ys ih =>
    rcases ih (min a y) with h | h
    · rcases min_choice a y with h' | h'
      · left; simp only [List.foldl_cons]; rw [h, h']
      · right; simp only [List.foldl_cons]; rw [h, h']; exact List.mem_cons_self
    · right; exact List.mem_cons_of_mem _ h

theorem foldl_max_ge_init (l : List α) (a : α) : a ≤ l.foldl max a := by
  induction l generalizing a with
  | nil => exact le_refl _
  | cons x xs ih => exact le_trans (le_max_left _ _) (ih _)

theorem foldl_max_ge_mem (l : List α) (a : α) : ∀ x ∈ l, x ≤ l.foldl max a := by
  induction l generalizing a with
  | nil => intro x hx; cases hx
  | cons y ys ih =>
    intro x hx
    rcases List.mem_cons.1 hx with rfl | hx
    · exact le_trans (le_max_right _ _) (foldl_max_ge_init ys (max a x))
    · exact ih _ x hx

theorem foldl_max_mem (l : List α) (a : α) : l.foldl max a = a ∨ l.foldl max a ∈ l := by
  induction l generalizing a with
  | nil => exact Or.inl rfl
  | cons y ys ih =>
    rcases ih (max a y) with h | h
    · rcases max_choice a y with h' | h'
      · left; simp only [List.foldl_cons]; rw [h, h']
      · right; simp only [List.foldl_cons]; rw [h, h']; exact List.mem_cons_self
    · right; exact List.mem_cons_of_mem _ h

/-- the smallest `k`-th coordinate of `p :: ps` (as computed by `hvSlices`) -/
def minHt (k : Nat) (p : List α) (ps : List (List α)) : α :=
  (ps.map (fun q => q.getD k 0)).foldl min (p.getD k 0)

theorem minHt_le (k : Nat) (p : List α) (ps : List (List α)) :
    ∀ q ∈ p :: ps, minHt k p ps ≤ q.getD k 0 := by
  intro q hq
  rcases List.mem_cons.1 hq with rfl | hq
  · exact foldl_min_le_init _ _
  · exact foldl_min_le_mem _ _ _ (List.mem_map.2 ⟨q, hq, rfl⟩)

theorem minHt_mem (k : Nat) (p : List α) (ps : List (List α)) :
    ∃ q ∈ p :: ps, minHt k p ps = q.getD k 0 := by
  rcases foldl_min_mem (ps.map (fun q => q.getD k 0)) (p.getD k 0) with h | h
  · exact ⟨p, List.mem_cons_self, h⟩
  · obtain ⟨q, hq, hqe⟩ := List.mem_map.1 h
    exact ⟨q, List.mem_cons_of_mem _ hq, hqe.symm⟩

theorem hvSlices_nil (rec : List (List α) → α) (k f : Nat) (prev : α) : hvSlices rec k f [] prev = 0 := by
  cases f <;> rfl

theorem hvSlices_cons (rec : List (List α) → α) (k f : Nat) (p : List α) (ps : List (List α)) (prev : α) :
    hvSlices rec k (f + 1) (p :: ps) prev =
      (minHt k p ps - prev) * rec (p :: ps) +
        hvSlices rec k f ((p :: ps).filter (fun q => minHt k p ps < q.getD k 0)) (minHt k p ps) := rfl

/-- inserting a redundant threshold -/
theorem hvSlices_shift (rec : List (List α) → α) (k f : Nat) (p : List α) (ps : List (List α)) (prev s : α) :
    hvSlices rec k (f + 1) (p :: ps) prev = (s - prev) * rec (p :: ps) + hvSlices rec k (f + 1) (p :: ps) s := by
  rw [hvSlices_cons, hvSlices_cons]; ring

theorem filter_minHt_length_lt (k : Nat) (p : List α) (ps : List (List α)) :
    ((p :: ps).filter (fun q => minHt k p ps < q.getD k 0)).length < (p :: ps).length := by
  rw [List.length_filter_lt_length_iff_exists]
  obtain ⟨q, hq, hqe⟩ := minHt_mem k p ps
  exact ⟨q, hq, by simp [hqe]⟩

theorem minHt_eq_of_mem_iff (k : Nat) (p q : List α) (ps qs : List (List α))
    (h : ∀ x, x ∈ p :: ps ↔ x ∈ q :: qs) : minHt k p ps = minHt k q qs := by
  apply le_antisymm
  · obtain ⟨x, hx, hxe⟩ := minHt_mem k q qs
    rw [hxe]; exact minHt_le k p ps x ((h x).2 hx)
  · obtain ⟨x, hx, hxe⟩ := minHt_mem k p ps
    rw [hxe]; exact minHt_le k q qs x ((h x).1 hx)

/-- `hvSlices` only depends on the *set* of points (and not on the fuel, once sufficient) -/
theorem hvSlices_congr (rec : List (List α) → α) (k : Nat)
    (hrec : ∀ P Q : List (List α), (∀ x, x ∈ P ↔ x ∈ Q) → rec P = rec Q) :
    ∀ (f1 f2 : Nat) (P Q : List (List α)) (prev : α), P.length < f1 → Q.length < f2 →
      (∀ x, x ∈ P ↔ x ∈ Q) → hvSlices rec k f1 P prev = hvSlices rec k f2 Q prev := by
  intro f1
  induction f1 with
  | zero => intro f2 P Q prev h1; exact absurd h1 (Nat.not_lt_zero _)
  | succ f1 ih =>
    intro f2 P Q prev h1 h2 hm
    cases P with
    | nil =>
      cases Q with
      | nil => rw [hvSlices_nil, hvSlices_nil]
      | cons q qs => exact absurd ((hm q).2 List.mem_cons_self) List.not_mem_nil
    | cons p ps =>
      cases Q with
      | nil => exact absurd ((hm p).1 List.mem_cons_self) List.not_mem_nil
      | cons q qs =>
        cases f2 with
        | zero => exact absurd h2 (Nat.not_lt_zero _)
        | succ f2 =>
          have ht := minHt_eq_of_mem_iff k p q ps qs hm
          rw [hvSlices_cons, hvSlices_cons, hrec _ _ hm, ← ht]
          congr 1
          apply ih
          · have := filter_minHt_length_lt k p ps
            simp only [List.length_cons] at this h1 ⊢; omega
          · have := filter_minHt_length_lt k q qs
            rw [← ht] at this
            simp only [List.length_cons] at this h2 ⊢; omega
          · intro x
            simp only [List.mem_filter, hm x]

theorem InCube.inUnit {d : Nat} {P : List (List α)} (h : InCube d P) : InUnit d P := by
  intro p hp i hi
  obtain ⟨hl, hx⟩ := h p hp
  have hi' : i < p.length := lt_of_lt_of_le hi hl
  have : p.getD i 0 = p[i] := by simp [List.getD, List.getElem?_eq_getElem hi']
  rw [this]; exact hx _ (List.getElem_mem hi')

theorem hvSlices_nonneg (rec : List (List α) → α) (k : Nat)
    (hnn : ∀ P : List (List α), InUnit k P → 0 ≤ rec P) :
    ∀ (f : Nat) (P : List (List α)) (prev : α), InUnit k P → (∀ p ∈ P, prev ≤ p.getD k 0) →
      0 ≤ hvSlices rec k f P prev := by
  intro f
  induction f with
  | zero => intro P prev _ _; exact le_refl _
  | succ f ih =>
    intro P prev hu hh
    cases P with
    | nil => exact le_refl _
    | cons p ps =>
      rw [hvSlices_cons]
      obtain ⟨q, hq, hqe⟩ := minHt_mem k p ps
      have h1 : 0 ≤ minHt k p ps - prev := by rw [hqe]; exact sub_nonneg.2 (hh q hq)
      have h2 := hnn _ hu
      have h3 := ih ((p :: ps).filter (fun q => minHt k p ps < q.getD k 0)) (minHt k p ps) (hu.filter _)
        (by intro x hx; simp only [List.mem_filter, decide_eq_true_eq] at hx; exact le_of_lt hx.2)
      exact add_nonneg (mul_nonneg h1 h2) h3

theorem hvSlices_le (rec : List (List α) → α) (k : Nat)
    (hle : ∀ P : List (List α), InUnit k P → rec P ≤ 1) :
    ∀ (f : Nat) (P : List (List α)) (prev : α), InUnit k P → prev ≤ 1 →
      (∀ p ∈ P, prev ≤ p.getD k 0 ∧ p.getD k 0 ≤ 1) →
      hvSlices rec k f P prev ≤ 1 - prev := by
  intro f
  induction f with
  | zero => intro P prev _ hp _; exact sub_nonneg.2 hp
  | succ f ih =>
    intro P prev hu hp hh
    cases P with
    | nil => exact sub_nonneg.2 hp
    | cons p ps =>
      rw [hvSlices_cons]
      obtain ⟨q, hq, hqe⟩ := minHt_mem k p ps
      have h1 : 0 ≤ minHt k p ps - prev := by rw [hqe]; exact sub_nonneg.2 (hh q hq).1
      have ht1 : minHt k p ps ≤ 1 := by rw [hqe]; exact (hh q hq).2
      have h2 := hle _ hu
      have h3 := ih ((p :: ps).filter (fun q => minHt k p ps < q.getD k 0)) (minHt k p ps) (hu.filter _) ht1
        (by
          intro x hx; simp only [List.mem_filter, decide_eq_true_eq] at hx
          exact ⟨le_of_lt hx.2, (hh x hx.1).2⟩)
      have h4 : (minHt k p ps - prev) * rec (p :: ps) ≤ (minHt k p ps - prev) * 1 :=
        mul_le_mul_of_nonneg_left h2 h1
      linarith

/-- the volume is monotone w.r.t. weak domination of point sets -/
theorem hvSlices_mono (rec : List (List α) → α) (k : Nat)
    (hnn : ∀ P : List (List α), InUnit k P → 0 ≤ rec P)
    (hmono : ∀ P Q : List (List α), InUnit k P → InUnit k Q → DomBy k P Q → rec P ≤ rec Q) :
    ∀ (n f1 f2 : Nat) (P Q : List (List α)) (prev : α), P.length + Q.length ≤ n →
      P.length < f1 → Q.length < f2 → InUnit k P → InUnit k Q →
      (∀ p ∈ P, prev ≤ p.getD k 0) → (∀ q ∈ Q, prev ≤ q.getD k 0) → DomBy (k + 1) P Q →
      hvSlices rec k f1 P prev ≤ hvSlices rec k f2 Q prev := by
  intro n
  induction n with
  | zero =>
    intro f1 f2 P Q prev hn _ _ _ hQ _ hhQ _
    have : P = [] := List.length_eq_zero_iff.1 (by omega)
    subst this
    rw [hvSlices_nil]; exact hvSlices_nonneg rec k hnn _ _ _ hQ hhQ
  | succ n ih =>
    intro f1 f2 P Q prev hn h1 h2 hP hQ hhP hhQ hdom
    cases P with
    | nil => rw [hvSlices_nil]; exact hvSlices_nonneg rec k hnn _ _ _ hQ hhQ
    | cons p ps =>
      cases Q with
      | nil =>
        obtain ⟨q, hq, _⟩ := hdom p List.mem_cons_self
        exact absurd hq List.not_mem_nil
      | cons q qs =>
        cases f1 with
        | zero => exact absurd h1 (Nat.not_lt_zero _)
        | succ f1 =>
        cases f2 with
        | zero => exact absurd h2 (Nat.not_lt_zero _)
        | succ f2 =>
          have hdomk : DomBy k (p :: ps) (q :: qs) := by
            intro x hx
            obtain ⟨y, hy, hxy⟩ := hdom x hx
            exact ⟨y, hy, fun i hi => hxy i (Nat.lt_succ_of_lt hi)⟩
          have hrec := hmono _ _ hP hQ hdomk
          rcases le_or_gt (minHt k p ps) (minHt k q qs) with hle | hlt
          · -- the lowest point of `P` is not above the lowest point of `Q`
            rw [hvSlices_cons rec k f1 p ps, hvSlices_shift rec k f2 q qs prev (minHt k p ps)]
            obtain ⟨x, hx, hxe⟩ := minHt_mem k p ps
            have hw : 0 ≤ minHt k p ps - prev := by rw [hxe]; exact sub_nonneg.2 (hhP x hx)
            have hlen := filter_minHt_length_lt k p ps
            have := ih f1 (f2 + 1) ((p :: ps).filter (fun q => minHt k p ps < q.getD k 0)) (q :: qs)
              (minHt k p ps) (by simp only [List.length_cons] at hlen hn ⊢; omega)
              (by simp only [List.length_cons] at hlen h1 ⊢; omega) h2 (hP.filter _) hQ
              (by intro x hx; simp only [List.mem_filter, decide_eq_true_eq] at hx; exact le_of_lt hx.2)
              (fun y hy => le_trans hle (minHt_le k q qs y hy))
              (fun x hx => hdom x (List.mem_filter.1 hx).1)
            have := mul_le_mul_of_nonneg_left hrec hw
            linarith
          · rw [hvSlices_cons rec k f2 q qs, hvSlices_shift rec k f1 p ps prev (minHt k q qs)]
            obtain ⟨x, hx, hxe⟩ := minHt_mem k q qs
            have hw : 0 ≤ minHt k q qs - prev := by rw [hxe]; exact sub_nonneg.2 (hhQ x hx)
            have hlen := filter_minHt_length_lt k q qs
            have := ih (f1 + 1) f2 (p :: ps) ((q :: qs).filter (fun y => minHt k q qs < y.getD k 0))
              (minHt k q qs) (by simp only [List.length_cons] at hlen hn ⊢; omega) h1
              (by simp only [List.length_cons] at hlen h2 ⊢; omega) hP (hQ.filter _)
              (fun y hy => le_of_lt (lt_of_lt_of_le hlt (minHt_le k p ps y hy)))
              (by intro x hx; simp only [List.mem_filter, decide_eq_true_eq] at hx; exact le_of_lt hx.2)
              (by
                intro y hy
                obtain ⟨z, hz, hyz⟩ := hdom y hy
                refine ⟨z, ?_, hyz⟩
                simp only [List.mem_filter, decide_eq_true_eq]
                exact ⟨hz, lt_of_lt_of_le (lt_of_lt_of_le hlt (minHt_le k p ps y hy)) (hyz k (Nat.lt_succ_self k))⟩)
            have := mul_le_mul_of_nonneg_left hrec hw
            linarith

/-- `hvRec` only depends on the set of points -/
theorem hvRec_congr : ∀ (d : Nat) (P Q : List (List α)), (∀ x, x ∈ P ↔ x ∈ Q) → hvRec d P = hvRec d Q
  | 0, _, _, _ => rfl
  | 1, P, Q, h => by
    have key : ∀ P Q : List (List α), (∀ x, x ∈ P → x ∈ Q) → hvRec 1 P ≤ hvRec 1 Q := by
      intro P Q h
      show (P.map (fun q => q.getD 0 0)).foldl max 0 ≤ (Q.map (fun q => q.getD 0 0)).foldl max 0
      rcases foldl_max_mem (P.map (fun q => q.getD 0 0)) 0 with h' | h'
      · rw [h']; exact foldl_max_ge_init _ _
      · obtain ⟨x, hx, hxe⟩ := List.mem_map.1 h'
        rw [← hxe]
        exact foldl_max_ge_mem _ _ _ (List.mem_map.2 ⟨x, h x hx, rfl⟩)
    exact le_antisymm (key P Q fun x => (h x).1) (key Q P fun x => (h x).2)
  | d + 2, P, Q, h =>
    hvSlices_congr (hvRec (d + 1)) (d + 1) (hvRec_congr (d + 1)) _ _ P Q 0 (Nat.lt_succ_self _)
      (Nat.lt_succ_self _) h

theorem hvRec_nonneg_unit : ∀ (d : Nat) (P : List (List α)), InUnit d P → 0 ≤ hvRec d P
  | 0, _, _ => le_refl _
  | 1, _, _ => foldl_max_ge_init _ _
  | d + 2, P, h =>
    hvSlices_nonneg (hvRec (d + 1)) (d + 1) (hvRec_nonneg_unit (d + 1)) _ P 0 (h.mono (Nat.le_succ _))
      (fun p hp => (h p hp (d + 1) (Nat.lt_succ_self _)).1)

theorem hvRec_le_one_unit : ∀ (d : Nat) (P : List (List α)), InUnit d P → hvRec d P ≤ 1
  | 0, _, _ => zero_le_one
  | 1, P, h => by
    show (P.map (fun q => q.getD 0 0)).foldl max 0 ≤ 1
    rcases foldl_max_mem (P.map (fun q => q.getD 0 0)) 0 with h' | h'
    · rw [h']; exact zero_le_one
    · obtain ⟨x, hx, hxe⟩ := List.mem_map.1 h'
      rw [← hxe]; exact (h x hx 0 Nat.zero_lt_one).2
  | d + 2, P, h => by
    have := hvSlices_le (hvRec (d + 1)) (d + 1) (hvRec_le_one_unit (d + 1))
      (P.length + 1) P 0 (h.mono (Nat.le_succ _)) zero_le_one (fun p hp => h p hp (d + 1) (Nat.lt_succ_self _))
    rw [sub_zero] at this; exact this

theorem hvRec_mono_dom : ∀ (d : Nat) (P Q : List (List α)), InUnit d P → InUnit d Q → DomBy d P Q →
    hvRec d P ≤ hvRec d Q
  | 0, _, _, _, _, _ => le_refl _
  | 1, P, Q, _, _, h => by
    show (P.map (fun q => q.getD 0 0)).foldl max 0 ≤ (Q.map (fun q => q.getD 0 0)).foldl max 0
    rcases foldl_max_mem (P.map (fun q => q.getD 0 0)) 0 with h' | h'
    · rw [h']; exact foldl_max_ge_init _ _
    · obtain ⟨x, hx, hxe⟩ := List.mem_map.1 h'
      obtain ⟨y, hy, hxy⟩ := h x hx
      rw [← hxe]
      exact le_trans (hxy 0 Nat.zero_lt_one) (foldl_max_ge_mem _ _ _ (List.mem_map.2 ⟨y, hy, rfl⟩))
  | d + 2, P, Q, hP, hQ, h =>
    hvSlices_mono (hvRec (d + 1)) (d + 1) (hvRec_nonneg_unit (d + 1)) (hvRec_mono_dom (d + 1))
      (P.length + Q.length) _ _ P Q 0 (le_refl _) (Nat.lt_succ_self _) (Nat.lt_succ_self _)
      (hP.mono (Nat.le_succ _)) (hQ.mono (Nat.le_succ _))
      (fun p hp => (hP p hp (d + 1) (Nat.lt_succ_self _)).1)
      (fun p hp => (hQ p hp (d + 1) (Nat.lt_succ_self _)).1) h

end spec

/-! ### properties of the specification -/

theorem hvRec_nonneg (d : Nat) (pts : List (List α)) (hc : InCube d pts) : 0 ≤ hvRec d pts :=
  hvRec_nonneg_unit d pts hc.inUnit

theorem hvRec_le_one (d : Nat) (hd : 1 ≤ d) (pts : List (List α)) (hc : InCube d pts) : hvRec d pts ≤ 1 := by
  have _ := hd
  exact hvRec_le_one_unit d pts hc.inUnit

/-- unchanged by reordering the set -/
theorem hvRec_perm (d : Nat) (pts pts' : List (List α)) (hp : pts.Perm pts') : hvRec d pts = hvRec d pts' :=
  hvRec_congr d pts pts' (fun _ => hp.mem_iff)

/-- unchanged by adding a duplicate -/
theorem hvRec_dup (d : Nat) (p : List α) (pts : List (List α)) (hp : p ∈ pts) : hvRec d (p :: pts) = hvRec d pts :=
  hvRec_congr d _ _ (fun x => by
    constructor
    · intro hx; rcases List.mem_cons.1 hx with rfl | hx
      · exact hp
      · exact hx
    · exact List.mem_cons_of_mem _)

/-- unchanged by adding a (weakly) dominated point -/
theorem hvRec_dominated (d : Nat) (p q : List α) (pts : List (List α)) (hq : q ∈ pts)
    (hc : InCube d (p :: pts)) (hdom : ∀ i, i < d → p.getD i 0 ≤ q.getD i 0) :
    hvRec d (p :: pts) = hvRec d pts := by
  have hu := hc.inUnit
  have hu' : InUnit d pts := hu.sub (fun x hx => List.mem_cons_of_mem _ hx)
  apply le_antisymm
  · apply hvRec_mono_dom d _ _ hu hu'
    intro x hx
    rcases List.mem_cons.1 hx with rfl | hx
    · exact ⟨q, hq, hdom⟩
    · exact ⟨x, hx, fun _ _ => le_refl _⟩
  · exact hvRec_mono_dom d _ _ hu' hu (DomBy.of_subset fun x hx => List.mem_cons_of_mem _ hx)

/-- never decreases when a solution is added -/
theorem hvRec_mono (d : Nat) (p : List α) (pts : List (List α)) (hc : InCube d (p :: pts)) :
    hvRec d pts ≤ hvRec d (p :: pts) := by
  have hu := hc.inUnit
  exact hvRec_mono_dom d _ _ (hu.sub (fun x hx => List.mem_cons_of_mem _ hx)) hu
    (DomBy.of_subset fun x hx => List.mem_cons_of_mem _ hx)


/-! ### the array algorithm -/

section algorithm

theorem hvRec_succ (k : Nat) (hk : 1 ≤ k) (pts : List (List α)) :
    hvRec (k + 1) pts = hvSlices (hvRec k) k (pts.length + 1) pts 0 := by
  obtain ⟨e, rfl⟩ := Nat.exists_eq_add_of_le hk
  rw [Nat.add_comm 1 e]
  rfl

theorem hvRec_one_eq_of_max (P : List (List α)) (x : List α) (hx : x ∈ P) (h0 : 0 ≤ x.getD 0 0)
    (hmax : ∀ y ∈ P, y.getD 0 0 ≤ x.getD 0 0) : hvRec 1 P = x.getD 0 0 := by
  show (P.map (fun q => q.getD 0 0)).foldl max 0 = x.getD 0 0
  apply le_antisymm
  · rcases foldl_max_mem (P.map (fun q => q.getD 0 0)) 0 with h | h
    · rw [h]; exact h0
    · obtain ⟨y, hy, hye⟩ := List.mem_map.1 h
      rw [← hye]; exact hmax y hy
  · exact foldl_max_ge_mem _ _ _ (List.mem_map.2 ⟨x, hx, rfl⟩)

/-- points on the current level contribute a slab of zero width -/
theorem hvSlices_filter_ge (rec : List (List α) → α) (k : Nat)
    (hrec : ∀ P Q : List (List α), (∀ x, x ∈ P ↔ x ∈ Q) → rec P = rec Q)
    (f1 f2 : Nat) (P : List (List α)) (t : α) (h1 : P.length < f1)
    (h2 : (P.filter (fun q => t < q.getD k 0)).length < f2) (hh : ∀ p ∈ P, t ≤ p.getD k 0) :
    hvSlices rec k f1 P t = hvSlices rec k f2 (P.filter (fun q => t < q.getD k 0)) t := by
  cases P with
  | nil => rw [List.filter_nil, hvSlices_nil, hvSlices_nil]
  | cons p ps =>
    by_cases hall : ∀ q ∈ p :: ps, t < q.getD k 0
    · have : (p :: ps).filter (fun q => t < q.getD k 0) = p :: ps :=
        List.filter_eq_self.2 (fun q hq => by simpa using hall q hq)
      rw [this] at h2 ⊢
      exact hvSlices_congr rec k hrec _ _ _ _ _ h1 h2 (fun _ => Iff.rfl)
    · have hex : ∃ q ∈ p :: ps, q.getD k 0 ≤ t := by
        by_contra hne
        exact hall (fun q hq => lt_of_not_ge (fun hle => hne ⟨q, hq, hle⟩))
      obtain ⟨q, hq, hqt⟩ := hex
      obtain ⟨q', hq', hqe'⟩ := minHt_mem k p ps
      have ht : minHt k p ps = t :=
        le_antisymm (le_trans (minHt_le k p ps q hq) hqt) (by rw [hqe']; exact hh q' hq')
      cases f1 with
      | zero => exact absurd h1 (Nat.not_lt_zero _)
      | succ f1 =>
        rw [hvSlices_cons, ht, sub_self, zero_mul, zero_add]
        apply hvSlices_congr rec k hrec _ _ _ _ _ _ h2 (fun _ => Iff.rfl)
        have := filter_minHt_length_lt k p ps
        rw [ht] at this
        simp only [List.length_cons] at this h1 ⊢; omega

/-- the main loop of `calc_internal`: invariant -/
theorem loop_spec (fuelD d : Nat) (hd : 2 ≤ d)
    (hrec : 3 ≤ d → ∀ (arr : Array (Array α)) (m : Nat), m ≤ arr.size → InUnit (d - 1) (pl arr m) →
      ∃ arr', calcInternal fuelD arr m (d - 1) = (arr', hvRec (d - 1) (pl arr m)) ∧ PrefPerm m arr arr') :
    ∀ (fuel : Nat) (arr : Array (Array α)) (n : Nat) (v dist : α), n < fuel → n ≤ arr.size →
      InUnit d (pl arr n) → (∀ p ∈ pl arr n, dist ≤ p.getD (d - 1) 0) →
      ∃ arr', calcInternal.loop fuelD d fuel arr n v dist =
          (arr', v + hvSlices (hvRec (d - 1)) (d - 1) (n + 1) (pl arr n) dist) ∧ PrefPerm n arr arr' := by
  intro fuel
  induction fuel with
  | zero => intro arr n v dist h; exact absurd h (Nat.not_lt_zero _)
  | succ fuel ih =>
    intro arr n v dist hfuel hn hu hh
    rw [calcInternal.loop.eq_2]
    by_cases hn0 : n > 0
    swap
    · rw [if_neg hn0]
      have : n = 0 := by omega
      subst this
      refine ⟨arr, ?_, PrefPerm.refl _ _⟩
      have : pl arr 0 = [] := by simp [pl]
      rw [this, hvSlices_nil, add_zero]
    rw [if_pos hn0]
    -- `filter_nondominated`
    have hmeas : (n - 0) * n + (n - 1) < (n + 1) * (n + 1) + 1 := by
      have : (n + 1) * (n + 1) = n * n + 2 * n + 1 := by ring
      rw [Nat.sub_zero, this]; omega
    obtain ⟨hF1, hF2, hF3, hF4, hF5⟩ :=
      filterNondominated_spec (α := α) (d - 1) n ((n + 1) * (n + 1) + 1) arr 0 1 n
        Nat.zero_lt_one hn0 hn (le_refl _) hmeas
        (by
          intro b _ hb
          have : b = 0 := by have := hb rfl; omega
          subst this; exact hvDominates_irrefl _ _)
    generalize filterNondominated (d - 1) ((n + 1) * (n + 1) + 1) arr 0 1 n = r1 at hF1 hF2 hF3 hF4 hF5 ⊢
    obtain ⟨arr1, m⟩ := r1
    dsimp only at hF1 hF2 hF3 hF4 hF5 ⊢
    have hsz1 : arr1.size = arr.size := hF1.size_eq
    have hP1 : (pl arr1 n).Perm (pl arr n) := hF1.pl
    have hu1 : InUnit d (pl arr1 n) := hu.sub (fun x hx => hP1.mem_iff.1 hx)
    have hsub1 : ∀ x ∈ pl arr1 m, x ∈ pl arr n := fun x hx => hP1.mem_iff.1 (pl_subset arr1 m n hF2 x hx)
    have hrecval : hvRec (d - 1) (pl arr1 m) = hvRec (d - 1) (pl arr n) := by
      have hud : InUnit (d - 1) (pl arr n) := hu.mono (Nat.sub_le _ _)
      have hud1 : InUnit (d - 1) (pl arr1 m) := hud.sub hsub1
      exact le_antisymm (hvRec_mono_dom _ _ _ hud1 hud (DomBy.of_subset hsub1))
        (hvRec_mono_dom _ _ _ hud hud1 hF4)
    -- the inner volume
    have hinner : ∃ arr2, (if d < 3 then (arr1, (arr1.getD 0 #[]).getD 0 0)
          else calcInternal fuelD arr1 m (d - 1)) = (arr2, hvRec (d - 1) (pl arr n)) ∧ PrefPerm n arr1 arr2 := by
      by_cases h3 : d < 3
      · rw [if_pos h3]
        refine ⟨arr1, ?_, PrefPerm.refl _ _⟩
        congr 1
        rw [← hrecval]
        have hd2 : d = 2 := by omega
        subst hd2
        show _ = hvRec 1 (pl arr1 m)
        have := hvRec_one_eq_of_max (pl arr1 m) (arr1.getD 0 #[]).toList (mem_pl arr1 0 m hF3 (by omega))
          (by
            have := (hu1 _ (mem_pl arr1 0 n hn0 (by omega)) 0 (by omega)).1
            exact this)
          (by
            intro y hy
            obtain ⟨b, hb, _, rfl⟩ := (mem_pl_iff arr1 m y).1 hy
            rw [array_getD_toList, array_getD_toList]
            exact hvDominates_one_false _ _ (hF5 b hb))
        rw [this, array_getD_toList]
      · rw [if_neg h3]
        obtain ⟨arr2, h1, h2⟩ := hrec (by omega) arr1 m (by omega) ((hu.mono (Nat.sub_le _ _)).sub hsub1)
        exact ⟨arr2, by rw [h1, hrecval], h2.mono hF2⟩
    obtain ⟨arr2, hin1, hR2⟩ := hinner
    rw [hin1]
    dsimp only
    have hsz2 : arr2.size = arr.size := by rw [hR2.size_eq, hsz1]
    have hRa2 : PrefPerm n arr arr2 := hF1.trans hR2
    have hP2 : (pl arr2 n).Perm (pl arr n) := hRa2.pl
    have hlen2 : (pl arr2 n).length = n := pl_length arr2 n (by omega)
    obtain ⟨p, ps, hpps⟩ : ∃ p ps, pl arr2 n = p :: ps := by
      cases h : pl arr2 n with
      | nil => rw [h] at hlen2; simp at hlen2; omega
      | cons p ps => exact ⟨p, ps, rfl⟩
    have hmem2 : ∀ x, x ∈ pl arr n ↔ x ∈ p :: ps := fun x => by rw [← hpps]; exact hP2.mem_iff.symm
    have htd : pyMinList 0 (List.map (fun i => (arr2.getD i #[]).getD (d - 1) 0) (List.range n))
        = minHt (d - 1) p ps := by
      rw [heights_eq arr2 n (d - 1) (by omega), hpps, List.map_cons, pyMinList_cons]; rfl
    rw [htd]
    -- `reduce_set`
    obtain ⟨q, hq, hqe⟩ := minHt_mem (d - 1) p ps
    obtain ⟨hS1, hS2, ⟨rem, hS3, hS4⟩, hS5⟩ :=
      reduceSet_spec (d - 1) (minHt (d - 1) p ps) (n + 1) arr2 0 n (by omega) (by omega)
    have hlt : (reduceSet (d - 1) (minHt (d - 1) p ps) (n + 1) arr2 0 n).2 < n := hS5 (by
      rw [← hpps] at hq
      obtain ⟨b, hb, _, hqb⟩ := (mem_pl_iff arr2 n q).1 hq
      refine ⟨b, Nat.zero_le _, hb, ?_⟩
      rw [hqe, hqb, array_getD_toList])
    clear hS5
    generalize reduceSet (d - 1) (minHt (d - 1) p ps) (n + 1) arr2 0 n = r3 at hS1 hS2 hS3 hlt ⊢
    obtain ⟨arr3, n'⟩ := r3
    dsimp only at hS1 hS2 hS3 hlt ⊢
    have hsz3 : arr3.size = arr.size := by rw [hS1.size_eq, hsz2]
    rw [hpps] at hS3
    have hsub3 : ∀ x ∈ pl arr3 n', x ∈ p :: ps := fun x hx => hS3.mem_iff.2 (List.mem_append_left _ hx)
    obtain ⟨arr4, h41, h42⟩ := ih arr3 n' (v + hvRec (d - 1) (pl arr n) * (minHt (d - 1) p ps - dist))
      (minHt (d - 1) p ps) (by omega) (by omega)
      (hu.sub (fun x hx => (hmem2 x).2 (hsub3 x hx)))
      (fun x hx => minHt_le _ _ _ x (hsub3 x hx))
    refine ⟨arr4, ?_, hRa2.trans (hS1.trans (h42.mono (by omega)))⟩
    rw [h41]
    congr 1
    have hlenP : (pl arr n).length = n := pl_length arr n hn
    have hlenpps : (p :: ps).length = n := by rw [← hpps]; exact hlen2
    have e1 : hvSlices (hvRec (d - 1)) (d - 1) (n + 1) (pl arr n) dist
        = hvSlices (hvRec (d - 1)) (d - 1) (n + 1) (p :: ps) dist :=
      hvSlices_congr _ _ (hvRec_congr (d - 1)) _ _ _ _ _ (by omega) (by omega) hmem2
    have hflt := filter_minHt_length_lt (d - 1) p ps
    have e2 : hvSlices (hvRec (d - 1)) (d - 1) (n' + 1) (pl arr3 n') (minHt (d - 1) p ps)
        = hvSlices (hvRec (d - 1)) (d - 1) n
            ((p :: ps).filter (fun q => minHt (d - 1) p ps < q.getD (d - 1) 0)) (minHt (d - 1) p ps) := by
      have hl3 : (pl arr3 n').length = n' := pl_length arr3 n' (by omega)
      have hfl3 : ((pl arr3 n').filter (fun q => minHt (d - 1) p ps < q.getD (d - 1) 0)).length < n := by
        have := List.length_filter_le (fun q => decide (minHt (d - 1) p ps < q.getD (d - 1) 0)) (pl arr3 n')
        omega
      rw [hvSlices_filter_ge _ _ (hvRec_congr (d - 1)) (n' + 1) n (pl arr3 n') _ (by omega) hfl3
        (fun x hx => minHt_le _ _ _ x (hsub3 x hx))]
      apply hvSlices_congr _ _ (hvRec_congr (d - 1)) _ _ _ _ _ hfl3 (by omega)
      intro x
      simp only [List.mem_filter, decide_eq_true_eq]
      constructor
      · rintro ⟨hx1, hx2⟩; exact ⟨hsub3 x hx1, hx2⟩
      · rintro ⟨hx1, hx2⟩
        refine ⟨?_, hx2⟩
        rcases List.mem_append.1 (hS3.mem_iff.1 hx1) with h | h
        · exact h
        · exact absurd (hS4 x h) (not_le.2 hx2)
    rw [e1, hvSlices_cons, e2, hvRec_congr (d - 1) (p :: ps) (pl arr n) (fun x => (hmem2 x).symm)]
    ring

/-- `calc_internal` on an arbitrary array prefix: it permutes the prefix and returns its volume -/
theorem calcInternal_spec : ∀ (fuelD d : Nat), 2 ≤ d → d ≤ fuelD + 1 →
    ∀ (arr : Array (Array α)) (n : Nat), n ≤ arr.size → InUnit d (pl arr n) →
      ∃ arr', calcInternal fuelD arr n d = (arr', hvRec d (pl arr n)) ∧ PrefPerm n arr arr' := by
  intro fuelD
  induction fuelD with
  | zero => intro d h2 h1; omega
  | succ fuelD ih =>
    intro d hd hf arr n hn hu
    rw [calcInternal.eq_2]
    obtain ⟨arr', h1, h2⟩ := loop_spec fuelD d hd (fun h3 => ih (d - 1) (by omega) (by omega))
      (2 * n + 2) arr n 0 0 (by omega) hn hu (fun p hp => (hu p hp (d - 1) (by omega)).1)
    refine ⟨arr', ?_, h2⟩
    rw [h1, zero_add]
    congr 1
    have hd' : d = (d - 1) + 1 := by omega
    rw [hd', hvRec_succ (d - 1) (by omega), pl_length arr n hn, ← hd']

end algorithm

/-- **the array algorithm computes the slicing specification** (every number of points, every `d ≥ 2`,
ties and duplicates allowed) -/
theorem calcInternal_eq_hvRec (d : Nat) (hd : 2 ≤ d) (pts : List (List α)) (hc : InCube d pts) (fuel : Nat)
    (hf : d ≤ fuel) :
    (calcInternal fuel ((pts.map List.toArray).toArray) pts.length d).2 = hvRec d pts := by
  have hpl : pl ((pts.map List.toArray).toArray) pts.length = pts := by
    have hcomp : (Array.toList ∘ List.toArray : List α → List α) = id := funext fun _ => rfl
    simp [pl, List.map_map, hcomp]
  obtain ⟨arr', h1, _⟩ := calcInternal_spec fuel d hd (by omega) ((pts.map List.toArray).toArray) pts.length
    (by simp) (by rw [hpl]; exact hc.inUnit)
  rw [h1, hpl]

/-- the two-objective case of the above -/
theorem calcInternal_eq_hvRec_2d (pts : List (List α)) (hc : InCube 2 pts) (fuel : Nat) (hf : 2 ≤ fuel) :
    (calcInternal fuel ((pts.map List.toArray).toArray) pts.length 2).2 = hvRec 2 pts :=
  calcInternal_eq_hvRec 2 (le_refl _) pts hc fuel hf

end Platypus
