import PlatypusModel.Model.Run
import Mathlib.Logic.Function.Iterate
/-!
# C08 — run(N) stops on budget: honest evaluation counter, overshoot under one step

For every state type, every step function that counts at least one evaluation per step (shown per
algorithm by the trace check), every budget `N ≥ 0`, every sequence of consecutive `run` calls.
-/
namespace Platypus

variable {S : Type}

/-- every step strictly increases the evaluation counter -/
def Progress (step : S → S) (nfe : S → Nat) : Prop := ∀ s, nfe s + 1 ≤ nfe (step s)

theorem nfe_iterate_ge (step : S → S) (nfe : S → Nat) (h : Progress step nfe) (s : S) (j : Nat) :
    nfe s + j ≤ nfe (step^[j] s) := by
  induction j generalizing s with
  | zero => simp
  | succ j ih =>
    rw [Function.iterate_succ_apply]
    have := ih (step s); have := h s; omega

theorem runLoop_spec (step : S → S) (nfe : S → Nat) (N start : Nat) (fuel : Nat) (s : S) (k : Nat) :
    ∃ j, j ≤ fuel ∧ runLoop step nfe N start fuel s k = (step^[j] s, k + j) ∧
      (∀ i, i < j → nfe (step^[i] s) - start < N) ∧
      (j < fuel → nfe (step^[j] s) - start ≥ N) := by
  induction fuel generalizing s k with
  | zero => exact ⟨0, Nat.le_refl _, rfl, by simp, by simp⟩
  | succ fuel ih =>
    unfold runLoop
    split
    · rename_i hge
      exact ⟨0, Nat.zero_le _, rfl, by simp, fun _ => hge⟩
    · rename_i hlt
      obtain ⟨j, hj, heq, hbefore, hafter⟩ := ih (step s) (k + 1)
      refine ⟨j + 1, by omega, ?_, ?_, ?_⟩
      · rw [heq, Function.iterate_succ_apply]; congr 1; omega
      · intro i hi
        cases i with
        | zero => simpa using Nat.lt_of_not_ge hlt
        | succ i => rw [Function.iterate_succ_apply]; exact hbefore i (by omega)
      · intro hjf; rw [Function.iterate_succ_apply]; exact hafter (by omega)

/-- **termination**: a run with budget `N` needs at most `N` steps (the loop's fuel is never the
reason it stops), and when it stops the evaluations counted since the call began have reached `N` -/
theorem run_fuel_suffices (step : S → S) (nfe : S → Nat) (h : Progress step nfe) (N : Nat) (s : S) :
    nfe (run step nfe N s).1 - nfe s ≥ N := by
  unfold run
  obtain ⟨j, hj, heq, _, hafter⟩ := runLoop_spec step nfe N (nfe s) N s 0
  rw [heq]
  by_cases hlt : j < N
  · exact hafter hlt
  · have : j = N := by omega
    subst this
    have := nfe_iterate_ge step nfe h s j
    simp only; omega

/-- **stops after the first step at which the budget is reached**: the result is `step^[k]` of the
initial state where `k` is the number of steps reported, the budget was not yet met before any earlier
step, and it is met at the end; hence the overshoot is less than the last step's evaluations -/
theorem run_stops_at_first_reach (step : S → S) (nfe : S → Nat) (h : Progress step nfe) (N : Nat) (s : S) :
    ∃ k, run step nfe N s = (step^[k] s, k) ∧ k ≤ N ∧
      (∀ i, i < k → nfe (step^[i] s) - nfe s < N) ∧ nfe (step^[k] s) - nfe s ≥ N := by
  obtain ⟨j, hj, heq, hbefore, _⟩ := runLoop_spec step nfe N (nfe s) N s 0
  refine ⟨j, by simpa [run] using heq, hj, hbefore, ?_⟩
  have := run_fuel_suffices step nfe h N s
  unfold run at this; rw [heq] at this; exact this

/-- a step is never started once the budget is met; in particular a budget of 0 evaluates nothing -/
theorem run_zero_budget (step : S → S) (nfe : S → Nat) (s : S) : run step nfe 0 s = (s, 0) := by
  simp [run, runLoop]

/-- overshoot is less than one step: before the last step the budget was not met -/
theorem run_overshoot_lt_last_step (step : S → S) (nfe : S → Nat) (h : Progress step nfe) (N : Nat) (s : S)
    (hN : 0 < N) : ∃ k, run step nfe N s = (step^[k + 1] s, k + 1) ∧
      nfe (step^[k] s) - nfe s < N ∧ N ≤ nfe (step^[k + 1] s) - nfe s := by
  obtain ⟨k, heq, _, hbefore, hafter⟩ := run_stops_at_first_reach step nfe h N s
  cases k with
  | zero => simp at hafter; omega
  | succ k => exact ⟨k, heq, hbefore k (by omega), hafter⟩

/-- calling run again continues from the current state with a fresh budget, and consecutive calls
compose into one sequence of steps (used by C13) -/
theorem run_twice (step : S → S) (nfe : S → Nat) (h : Progress step nfe) (N₁ N₂ : Nat) (s : S) :
    ∃ k₁ k₂, run step nfe N₁ s = (step^[k₁] s, k₁) ∧
      run step nfe N₂ (step^[k₁] s) = (step^[k₂ + k₁] s, k₂) ∧
      nfe (step^[k₂ + k₁] s) - nfe (step^[k₁] s) ≥ N₂ := by
  obtain ⟨k₁, h1, _, _, _⟩ := run_stops_at_first_reach step nfe h N₁ s
  obtain ⟨k₂, h2, _, _, h2r⟩ := run_stops_at_first_reach step nfe h N₂ (step^[k₁] s)
  refine ⟨k₁, k₂, h1, ?_, ?_⟩
  · rw [h2, Function.iterate_add_apply]
  · rw [Function.iterate_add_apply]; exact h2r

/-! ### the observed-increments form used to check traces of real runs -/

theorem runOnIncs_spec (N : Nat) (incs : List Nat) (k done : Nat) :
    ∃ j, j ≤ incs.length ∧
      (runOnIncs N incs k done).1 = k + j ∧
      (runOnIncs N incs k done).2.1 = done + (incs.take j).sum ∧
      (∀ i, i < j → done + (incs.take i).sum < N) ∧
      ((runOnIncs N incs k done).2.2 = false → N ≤ done + (incs.take j).sum) ∧
      ((runOnIncs N incs k done).2.2 = true → j = incs.length ∧ done + incs.sum < N) := by
  induction incs generalizing k done with
  | nil =>
    refine ⟨0, Nat.le_refl _, ?_⟩
    unfold runOnIncs
    split <;> simp_all <;> omega
  | cons i rest ih =>
    unfold runOnIncs
    split
    · rename_i hge
      exact ⟨0, Nat.zero_le _, by simp, by simp, by simp, fun _ => by simpa using hge, by simp⟩
    · rename_i hlt
      obtain ⟨j, hj, h1, h2, h3, h4, h5⟩ := ih (k + 1) (done + i)
      refine ⟨j + 1, by simp; omega, by rw [h1]; omega, ?_, ?_, ?_, ?_⟩
      · rw [h2]; simp [List.take_succ_cons]; omega
      · intro a ha
        cases a with
        | zero => simp; omega
        | succ a => have := h3 a (by omega); simp [List.take_succ_cons]; omega
      · intro hf; have := h4 hf; simp [List.take_succ_cons]; omega
      · intro ht; obtain ⟨e1, e2⟩ := h5 ht; simp [e1]; omega

/-- an accepted trace (the model run over the observed increments stops exactly at the observed number
of steps without running out) stops at the first step where the budget is reached -/
theorem accepted_trace_stops_at_first_reach (N : Nat) (incs : List Nat)
    (hacc : runOnIncs N incs 0 0 = (incs.length, incs.sum, false)) :
    N ≤ incs.sum ∧ ∀ i, i < incs.length → (incs.take i).sum < N := by
  obtain ⟨j, hj, h1, h2, h3, h4, _⟩ := runOnIncs_spec N incs 0 0
  rw [hacc] at h1 h2 h4
  simp at h1 h2 h4
  subst h1
  exact ⟨by simpa using h4, fun i hi => by simpa using h3 i hi⟩

/-- the counter is never smaller than the number of calls actually made, batch by batch -/
theorem evalAll_calls_le (batch : List Bool) : (evalAll batch).1 ≤ (evalAll batch).2 := by
  simp [evalAll]; exact List.length_filter_le _ _

/-- an already evaluated solution is not evaluated again: calls = number of unevaluated members -/
theorem evalAll_calls_eq (batch : List Bool) : (evalAll batch).1 = batch.count false := by
  simp [evalAll, List.count_eq_countP, List.countP_eq_length_filter]

/-! non-vacuity: step size 4, budget 9 → 3 steps, 12 evaluations, overshoot 3 < 4 -/
example : run (fun n : Nat => n + 4) id 9 100 = (112, 3) := by decide
example : runOnIncs 9 [4, 4, 4] 0 0 = (3, 12, false) ∧ runOnIncs 9 [4, 4, 4, 4] 0 0 = (3, 12, false) ∧
    runOnIncs 9 [4, 4] 0 0 = (2, 8, true) := by decide

end Platypus
