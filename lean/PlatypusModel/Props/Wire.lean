import PlatypusModel.Props.C02
import PlatypusModel.Props.C03
import PlatypusModel.Props.C05Fix
import Mathlib.Data.Rat.Floor
import Mathlib.Algebra.Order.Ring.Rat
/-!
# Wire — the functions the driver runs are instances the theorems speak about

The theorems of `Props/C02`, `Props/C03` (and `C04`) are stated for an arbitrary `[LinearOrder α] [Neg α] [Zero α]`;
those of `Props/C05`, `Props/C05Fix` for an arbitrary ordered field with a floor, with `flE`/`sqE` as floor and
square.  The compiled driver (`Driver/Ops.lean`) runs the *model* functions at two exact scalar types using the
instances found by core Lean:

* `Platypus.ERat` with `ERat.instLT`, `ERat.instDecidableLT`, the `BEq` of the derived `DecidableEq`,
  `ERat.instNeg` and `ERat.instOfNatOfNatNat` (`paretoCompare`, `archiveAdd`/`archiveOf`, non-dominated sort);
* `Rat` with the core instances and `flQ x = (x.floor : Int)`, `sqQ x = x * x` (`epsCompareP`, `sameBox`).

This file closes the gap between the two:

1. `instLinearOrderERat`, `instZeroERat`: `ERat` is a linear order with a zero, and every operation that the
   theorems read off these two instances (`<`, its decision procedure, `==`, `0`; `-` is the model's own instance
   in both worlds) is *definitionally* the model's (`example … := rfl`).  Hence `paretoCompare (α := ERat)` as the
   theorems see it is literally the function the driver executes (`wire_paretoCompare_eq`, `wire_scan_eq`,
   `wire_cvBlock_eq`, `wire_archiveOf_eq`, all by `rfl`).
2. `wire_pareto_neg_one_iff`, `wire_pareto_one_iff`, `wire_pareto_zero_iff`, `wire_pareto_antisymm`,
   `wire_pareto_trans`, `wire_archive_eq_filter`: the C02 / C03 theorems at `ERat`, stated with the model's
   instances written out explicitly (the `wire_E*` abbreviations), so nothing depends on which instance
   elaboration happens to pick.
3. For `Rat`: the core instances the driver uses are definitionally those of Mathlib's `Field ℚ`/`LinearOrder ℚ`
   (`example … := rfl`), `fun x => ((x.floor : Int) : Rat)` is `flE` (`wire_flQ_eq`), `fun x => x * x` is `sqE`
   (`wire_sqQ_eq`), so the driver's `epsCompareP flQ sqQ`, `sameBox flQ` are the theorems'
   `epsCompareP flE sqE`, `sameBox flE` (`wire_epsCompareP_fn_eq`, `wire_sameBox_fn_eq`), and
   `wire_eps_respects_pareto`, `wire_epsCompareP_eq` are the C05 theorems stated with the driver's arguments.
-/
namespace Platypus

/-! ### `ERat` is a linear order whose `<` is the model's -/

theorem wire_blt_irrefl (a : ERat) : ERat.blt a a = false := by
  cases a <;> simp [ERat.blt]

theorem wire_blt_trans (a b c : ERat) :
    ERat.blt b a = false → ERat.blt c b = false → ERat.blt c a = false := by
  cases a <;> cases b <;> cases c <;> simp [ERat.blt]
  exact fun h1 h2 => le_trans h1 h2

theorem wire_blt_antisymm (a b : ERat) :
    ERat.blt b a = false → ERat.blt a b = false → a = b := by
  cases a <;> cases b <;> simp [ERat.blt]
  exact fun h1 h2 => le_antisymm h1 h2

theorem wire_blt_total (a b : ERat) : ERat.blt b a = false ∨ ERat.blt a b = false := by
  cases a <;> cases b <;> simp [ERat.blt]
  exact le_total _ _

theorem wire_blt_lt_iff (a b : ERat) :
    ERat.blt a b = true ↔ ERat.blt b a = false ∧ ¬ ERat.blt a b = false := by
  cases a <;> cases b <;> simp [ERat.blt]
  exact fun h => le_of_lt h

/-- `ERat` as a linear order: `a < b` is the model's `blt a b = true`, `a ≤ b` is `blt b a = false`; the decision
procedures for `<` and `=` are the model's. -/
instance instLinearOrderERat : LinearOrder ERat where
  le a b := ERat.blt b a = false
  lt a b := ERat.blt a b = true
  le_refl := wire_blt_irrefl
  le_trans := wire_blt_trans
  lt_iff_le_not_ge := wire_blt_lt_iff
  le_antisymm := wire_blt_antisymm
  le_total := wire_blt_total
  toDecidableLE := fun a b => inferInstanceAs (Decidable (ERat.blt b a = false))
  toDecidableEq := instDecidableEqERat
  toDecidableLT := ERat.instDecidableLT

instance instZeroERat : Zero ERat := ⟨.fin 0⟩

/-! #### the instances the theorems use are definitionally the model's -/

/-- `<` -/
example : (instLinearOrderERat.toLT : LT ERat) = ERat.instLT := rfl
example : (@Preorder.toLT ERat (@PartialOrder.toPreorder ERat instLinearOrderERat.toPartialOrder)) = ERat.instLT := rfl
/-- the decision procedure of `<` -/
example : (instLinearOrderERat.toDecidableLT : DecidableLT ERat) = ERat.instDecidableLT := rfl
/-- `DecidableEq`, hence `==` and `!=` -/
example : (instLinearOrderERat.toDecidableEq : DecidableEq ERat) = instDecidableEqERat := rfl
example : (@instBEqOfDecidableEq ERat instLinearOrderERat.toDecidableEq) =
    @instBEqOfDecidableEq ERat instDecidableEqERat := rfl
/-- `0` -/
example : (@Zero.toOfNat0 ERat instZeroERat : OfNat ERat 0) = ERat.instOfNatOfNatNat := rfl
/-- what instance resolution finds once the new instances are in scope -/
example : (inferInstance : LT ERat) = ERat.instLT := rfl
example : (inferInstance : DecidableLT ERat) = ERat.instDecidableLT := rfl
example : (inferInstance : BEq ERat) = @instBEqOfDecidableEq ERat instDecidableEqERat := rfl
example : (inferInstance : Neg ERat) = ERat.instNeg := rfl
example : (inferInstance : OfNat ERat 0) = ERat.instOfNatOfNatNat := rfl

/-! #### the model's functions with the driver's instances spelled out -/

/-- `paretoCompare` exactly as the driver elaborates it at `ERat` -/
abbrev wire_EparetoCompare : Bool → List Bool → Sol ERat → Sol ERat → Int :=
  @paretoCompare ERat ERat.instLT ERat.instDecidableLT (@instBEqOfDecidableEq ERat instDecidableEqERat)
    ERat.instNeg ERat.instOfNatOfNatNat

/-- `scan` exactly as the driver elaborates it at `ERat` -/
abbrev wire_Escan : List Bool → List ERat → List ERat → Bool → Bool → Int :=
  @scan ERat ERat.instLT ERat.instDecidableLT ERat.instNeg

/-- `cvBlock` exactly as the driver elaborates it at `ERat` -/
abbrev wire_EcvBlock : Bool → ERat → ERat → Option Int :=
  @cvBlock ERat ERat.instLT ERat.instDecidableLT (@instBEqOfDecidableEq ERat instDecidableEqERat)
    ERat.instOfNatOfNatNat

/-- the theorems' `paretoCompare (α := ERat)` (instances derived from `LinearOrder`/`Zero`, as in the statement
of `pareto_neg_one_iff`) is the driver's -/
theorem wire_paretoCompare_eq :
    wire_EparetoCompare =
      @paretoCompare ERat
        (@Preorder.toLT ERat (@PartialOrder.toPreorder ERat instLinearOrderERat.toPartialOrder))
        instLinearOrderERat.toDecidableLT
        (@instBEqOfDecidableEq ERat instLinearOrderERat.toDecidableEq)
        ERat.instNeg
        (@Zero.toOfNat0 ERat instZeroERat) := rfl

theorem wire_scan_eq :
    wire_Escan =
      @scan ERat
        (@Preorder.toLT ERat (@PartialOrder.toPreorder ERat instLinearOrderERat.toPartialOrder))
        instLinearOrderERat.toDecidableLT ERat.instNeg := rfl

theorem wire_cvBlock_eq :
    wire_EcvBlock =
      @cvBlock ERat
        (@Preorder.toLT ERat (@PartialOrder.toPreorder ERat instLinearOrderERat.toPartialOrder))
        instLinearOrderERat.toDecidableLT
        (@instBEqOfDecidableEq ERat instLinearOrderERat.toDecidableEq)
        (@Zero.toOfNat0 ERat instZeroERat) := rfl

/-- … and it is what plain elaboration produces in this file -/
theorem wire_paretoCompare_eq_elab :
    wire_EparetoCompare = fun c dirs (a b : Sol ERat) => paretoCompare c dirs a b := rfl

theorem wire_archiveOf_eq (c : Bool) (dirs : List Bool) :
    archiveOf (wire_EparetoCompare c dirs) = archiveOf (paretoCompare (α := ERat) c dirs) := rfl

theorem wire_neg_ninf : -ERat.ninf = ERat.pinf := rfl
theorem wire_neg_pinf : -ERat.pinf = ERat.ninf := rfl
theorem wire_neg_fin (q : Rat) : -ERat.fin q = ERat.fin (-q) := rfl

/-- `Better`'s strict comparison at `ERat` is the model's `<` -/
theorem wire_lt_iff (x y : ERat) : x < y ↔ ERat.blt x y = true := Iff.rfl

/-- `AllLe`'s weak comparison at `ERat` is "not the model's `>`" -/
theorem wire_le_iff (x y : ERat) : x ≤ y ↔ ¬ y < x := by
  show ERat.blt y x = false ↔ ¬ ERat.blt y x = true
  simp

/-- `ERat` negation reverses the order (the hypothesis of `adj_max_lt_iff`) -/
theorem wire_neg_lt_neg_iff (x y : ERat) : -x < -y ↔ y < x := by
  cases x <;> cases y <;>
    simp [wire_lt_iff, wire_neg_ninf, wire_neg_pinf, wire_neg_fin, ERat.blt]

/-! ### C02 / C03 at `ERat`, about the driver's function -/

/-- the driver's `paretoCompare` answers -1 exactly when the first solution is `Better` -/
theorem wire_pareto_neg_one_iff (c : Bool) (dirs : List Bool) (a b : Sol ERat)
    (ha : WF dirs a) (hb : WF dirs b) :
    wire_EparetoCompare c dirs a b = -1 ↔ Better c dirs a b :=
  pareto_neg_one_iff c dirs a b ha hb

/-- the driver's `paretoCompare` answers 1 exactly when the second solution is `Better` -/
theorem wire_pareto_one_iff (c : Bool) (dirs : List Bool) (a b : Sol ERat)
    (ha : WF dirs a) (hb : WF dirs b) :
    wire_EparetoCompare c dirs a b = 1 ↔ Better c dirs b a :=
  pareto_one_iff c dirs a b ha hb

/-- … and 0 exactly when neither is -/
theorem wire_pareto_zero_iff (c : Bool) (dirs : List Bool) (a b : Sol ERat)
    (ha : WF dirs a) (hb : WF dirs b) :
    wire_EparetoCompare c dirs a b = 0 ↔ (¬ Better c dirs a b ∧ ¬ Better c dirs b a) :=
  pareto_zero_iff c dirs a b ha hb

/-- no other answer exists -/
theorem wire_pareto_range (c : Bool) (dirs : List Bool) (a b : Sol ERat) :
    wire_EparetoCompare c dirs a b = -1 ∨ wire_EparetoCompare c dirs a b = 0 ∨
      wire_EparetoCompare c dirs a b = 1 :=
  pareto_range c dirs a b

/-- swapping the arguments negates the driver's answer -/
theorem wire_pareto_antisymm (c : Bool) (dirs : List Bool) (a b : Sol ERat)
    (ha : WF dirs a) (hb : WF dirs b) :
    wire_EparetoCompare c dirs b a = - wire_EparetoCompare c dirs a b :=
  pareto_antisymm c dirs a b ha hb

/-- the driver's answer -1 is transitive -/
theorem wire_pareto_trans (c : Bool) (dirs : List Bool) (a b d : Sol ERat)
    (ha : WF dirs a) (hb : WF dirs b) (hd : WF dirs d)
    (h1 : wire_EparetoCompare c dirs a b = -1) (h2 : wire_EparetoCompare c dirs b d = -1) :
    wire_EparetoCompare c dirs a d = -1 :=
  pareto_trans c dirs a b d ha hb hd h1 h2

/-- the archive the driver builds with its `paretoCompare` is the filter of the undominated offers -/
theorem wire_archive_eq_filter (c : Bool) (dirs : List Bool) (xs : List (Sol ERat))
    (hwf : ∀ x ∈ xs, WF dirs x) :
    archiveOf (wire_EparetoCompare c dirs) xs =
      xs.filter (fun x => xs.all (fun y => decide (¬ wire_EparetoCompare c dirs y x < 0))) :=
  pareto_archive_eq_filter c dirs xs hwf

/-- `WF` at `ERat` unfolded to the model's order: one objective per direction and a violation not below zero -/
theorem wire_WF_iff (dirs : List Bool) (a : Sol ERat) :
    WF dirs a ↔ a.objs.length = dirs.length ∧ ERat.blt a.cv (ERat.fin 0) = false := Iff.rfl

/-- non-vacuity: an infinite objective, mixed directions, a constrained pair -/
example :
    WF [false, true] (⟨0, [.fin 1, .pinf], .fin 0⟩ : Sol ERat) ∧
    WF [false, true] (⟨1, [.fin 1, .fin 3], .fin 0⟩ : Sol ERat) ∧
    wire_EparetoCompare true [false, true] ⟨0, [.fin 1, .pinf], .fin 0⟩ ⟨1, [.fin 1, .fin 3], .fin 0⟩ = -1 ∧
    wire_EparetoCompare true [false, true] ⟨0, [.ninf, .pinf], .fin 2⟩ ⟨1, [.fin 1, .fin 3], .fin 1⟩ = 1 := by
  exact ⟨⟨rfl, by decide⟩, ⟨rfl, by decide⟩, by decide, by decide⟩

/-! ### `Rat`: the driver's instances, floor and square are the theorems' -/

/-! the core instances found by the driver are definitionally those carried by `Field ℚ` / `LinearOrder ℚ` -/
example : (Rat.instLT : LT Rat) =
    @Preorder.toLT Rat (@PartialOrder.toPreorder Rat Rat.linearOrder.toPartialOrder) := rfl
example : (Rat.instDecidableLt : DecidableLT Rat) = Rat.linearOrder.toDecidableLT := rfl
example : (@instBEqOfDecidableEq Rat instDecidableEqRat) =
    @instBEqOfDecidableEq Rat Rat.linearOrder.toDecidableEq := rfl
example : (Rat.instNeg : Neg Rat) = (inferInstance : Field Rat).toNeg := rfl
example : (@Rat.instOfNat 0 : OfNat Rat 0) = @Zero.toOfNat0 Rat (inferInstance : Field Rat).toZero := rfl
example : (Rat.instSub : Sub Rat) = (inferInstance : Field Rat).toSub := rfl
example : (Rat.instMul : Mul Rat) = (inferInstance : Field Rat).toMul := rfl
example : (Rat.instDiv : Div Rat) = (inferInstance : Field Rat).toDiv := rfl
example : (Rat.instAdd : Add Rat) = (inferInstance : Field Rat).toAdd := rfl

/-- the driver's `flQ` is the exact floor `flE` -/
theorem wire_flQ_eq : (fun x : Rat => ((x.floor : Int) : Rat)) = flE := rfl

/-- the driver's `sqQ` is `sqE` -/
theorem wire_sqQ_eq : (fun x : Rat => x * x) = sqE := rfl

/-- `epsCompareP` exactly as the driver elaborates it at `Rat` (core instances, `flQ`, `sqQ`) -/
abbrev wire_QepsCompareP : Bool → List Bool → List Rat → Sol Rat → Sol Rat → Int :=
  @epsCompareP Rat Rat.instLT Rat.instDecidableLt (@instBEqOfDecidableEq Rat instDecidableEqRat) Rat.instNeg
    (@Rat.instOfNat 0) Rat.instSub Rat.instMul Rat.instDiv Rat.instAdd
    (fun x => @Int.cast Rat Rat.instIntCast (Rat.floor x)) (fun x => @HMul.hMul Rat Rat Rat (@instHMul Rat Rat.instMul) x x)

/-- `sameBox` exactly as the driver elaborates it at `Rat` -/
abbrev wire_QsameBox : Bool → List Bool → List Rat → Sol Rat → Sol Rat → Bool :=
  @sameBox Rat Rat.instLT Rat.instDecidableLt (@instBEqOfDecidableEq Rat instDecidableEqRat) Rat.instNeg
    (@Rat.instOfNat 0) Rat.instDiv
    (fun x => @Int.cast Rat Rat.instIntCast (Rat.floor x))

/-- `paretoCompare` exactly as the driver elaborates it at `Rat` -/
abbrev wire_QparetoCompare : Bool → List Bool → Sol Rat → Sol Rat → Int :=
  @paretoCompare Rat Rat.instLT Rat.instDecidableLt (@instBEqOfDecidableEq Rat instDecidableEqRat) Rat.instNeg
    (@Rat.instOfNat 0)

/-- the driver's `epsCompareP flQ sqQ` is the theorems' `epsCompareP flE sqE` -/
theorem wire_epsCompareP_fn_eq : wire_QepsCompareP = epsCompareP (α := Rat) flE sqE := rfl

theorem wire_epsCompareP_fn_eq' :
    wire_QepsCompareP = epsCompareP (fun x : Rat => ((x.floor : Int) : Rat)) (fun x => x * x) := rfl

/-- the driver's `sameBox flQ` is the theorems' `sameBoxE` -/
theorem wire_sameBox_fn_eq : wire_QsameBox = sameBox (α := Rat) flE := rfl

theorem wire_paretoCompare_rat_eq : wire_QparetoCompare = paretoCompare (α := Rat) := rfl

/-- the repaired ε-comparator, with the driver's floor and square, never contradicts Pareto dominance -/
theorem wire_eps_respects_pareto (c : Bool) (dirs : List Bool) (eps : List Rat) (a b : Sol Rat)
    (ha : WFe dirs eps a) (hb : WFe dirs eps b) :
    (paretoCompare c dirs a b = -1 →
      epsCompareP (fun x : Rat => ((x.floor : Int) : Rat)) (fun x => x * x) c dirs eps a b = -1) ∧
    (paretoCompare c dirs a b = 1 →
      epsCompareP (fun x : Rat => ((x.floor : Int) : Rat)) (fun x => x * x) c dirs eps a b = 1) :=
  epsP_respects_pareto c dirs eps a b ha hb

/-- the same, every instance spelled out -/
theorem wire_eps_respects_pareto' (c : Bool) (dirs : List Bool) (eps : List Rat) (a b : Sol Rat)
    (ha : WFe dirs eps a) (hb : WFe dirs eps b) :
    (wire_QparetoCompare c dirs a b = -1 → wire_QepsCompareP c dirs eps a b = -1) ∧
    (wire_QparetoCompare c dirs a b = 1 → wire_QepsCompareP c dirs eps a b = 1) :=
  epsP_respects_pareto c dirs eps a b ha hb

/-- with the driver's floor and square the repaired comparator equals the pinned one -/
theorem wire_epsCompareP_eq (c : Bool) (dirs : List Bool) (eps : List Rat) (a b : Sol Rat)
    (ha : WFe dirs eps a) (hb : WFe dirs eps b) :
    epsCompareP (fun x : Rat => ((x.floor : Int) : Rat)) (fun x => x * x) c dirs eps a b =
      epsCompare (fun x : Rat => ((x.floor : Int) : Rat)) (fun x => x * x) c dirs eps a b :=
  epsCompareP_eq c dirs eps a b ha hb

end Platypus
