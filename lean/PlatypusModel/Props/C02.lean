import PlatypusModel.Model.Dominance
import Mathlib.Order.Defs.LinearOrder
import Mathlib.Order.Basic
import Mathlib.Data.Int.Order.Basic
set_option linter.unusedSectionVars false
/-!
# C02 — Pareto dominance is the constraint-first strict partial order on solutions

Stated for every linearly ordered scalar type with a zero and a negation, every number of
objectives, every assignment of directions.  `adj d x` is the value taken in the declared
direction; for the types at hand (`Int`, `ℚ`, `ERat`) `-x < -y ↔ y < x`, so
`adj true x < adj true y ↔ y < x` (`adj_max_lt_iff`).
-/
namespace Platypus

variable {α : Type} [LinearOrder α] [Neg α] [Zero α]

/-- no worse in every objective (each in its declared direction) -/
def AllLe : List Bool → List α → List α → Prop
  | d :: ds, x :: xs, y :: ys => adj d x ≤ adj d y ∧ AllLe ds xs ys
  | _, _, _ => True

/-- strictly better in at least one objective -/
def SomeLt : List Bool → List α → List α → Prop
  | d :: ds, x :: xs, y :: ys => adj d x < adj d y ∨ SomeLt ds xs ys
  | _, _, _ => False

/-- "first is better": the constraint-first strict order of the property statement -/
def Better (constrained : Bool) (dirs : List Bool) (a b : Sol α) : Prop :=
  (constrained = true ∧ a.cv < b.cv) ∨
  ((constrained = false ∨ a.cv = b.cv) ∧ AllLe dirs a.objs b.objs ∧ SomeLt dirs a.objs b.objs)

/-- well-formed evaluated solution: one objective per direction, violation is a sum of absolute values -/
def WF (dirs : List Bool) (a : Sol α) : Prop := a.objs.length = dirs.length ∧ (0 : α) ≤ a.cv

theorem adj_max_lt_iff (hneg : ∀ x y : α, -x < -y ↔ y < x) (x y : α) :
    adj true x < adj true y ↔ y < x := by simp [adj, hneg]

theorem adj_min_lt_iff (x y : α) : adj false x < adj false y ↔ x < y := by simp [adj]

/-! #### the flag loop -/

theorem scan_neg_one_iff (ds : List Bool) (xs ys : List α) (d1 d2 : Bool) :
    scan ds xs ys d1 d2 = -1 ↔ (d2 = false ∧ AllLe ds xs ys ∧ (d1 = true ∨ SomeLt ds xs ys)) := by
  induction ds generalizing xs ys d1 d2 with
  | nil => cases d1 <;> cases d2 <;> simp [scan, AllLe, SomeLt]
  | cons d ds ih =>
    cases xs with
    | nil => cases d1 <;> cases d2 <;> simp [scan, AllLe, SomeLt]
    | cons x xs =>
      cases ys with
      | nil => cases d1 <;> cases d2 <;> simp [scan, AllLe, SomeLt]
      | cons y ys =>
        simp only [scan, AllLe, SomeLt]
        rcases lt_trichotomy (adj d x) (adj d y) with h | h | h
        · have h' : ¬ adj d y < adj d x := not_lt.mpr h.le
          cases d2 <;> simp [h, h.le, ih]
        · cases d1 <;> cases d2 <;> simp [h, ih]
        · have h' : ¬ adj d x < adj d y := not_lt.mpr h.le
          have h'' : ¬ adj d x ≤ adj d y := not_le.mpr h
          cases d1 <;> simp [h, h', h'', ih]

theorem scan_one_iff (ds : List Bool) (xs ys : List α) (d1 d2 : Bool) :
    scan ds xs ys d1 d2 = 1 ↔ (d1 = false ∧ AllLe ds ys xs ∧ (d2 = true ∨ SomeLt ds ys xs)) := by
  induction ds generalizing xs ys d1 d2 with
  | nil => cases d1 <;> cases d2 <;> simp [scan, AllLe, SomeLt]
  | cons d ds ih =>
    cases xs with
    | nil => cases d1 <;> cases d2 <;> simp [scan, AllLe, SomeLt]
    | cons x xs =>
      cases ys with
      | nil => cases d1 <;> cases d2 <;> simp [scan, AllLe, SomeLt]
      | cons y ys =>
        simp only [scan, AllLe, SomeLt]
        rcases lt_trichotomy (adj d x) (adj d y) with h | h | h
        · have h' : ¬ adj d y < adj d x := not_lt.mpr h.le
          have h'' : ¬ adj d y ≤ adj d x := not_le.mpr h
          cases d2 <;> simp [h, h', h'', ih]
        · cases d1 <;> cases d2 <;> simp [h, ih]
        · have h' : ¬ adj d x < adj d y := not_lt.mpr h.le
          cases d1 <;> simp [h, h', h.le, ih]

theorem scan_range (ds : List Bool) (xs ys : List α) (d1 d2 : Bool) :
    scan ds xs ys d1 d2 = -1 ∨ scan ds xs ys d1 d2 = 0 ∨ scan ds xs ys d1 d2 = 1 := by
  induction ds generalizing xs ys d1 d2 with
  | nil => cases d1 <;> cases d2 <;> simp [scan]
  | cons d ds ih =>
    cases xs with
    | nil => cases d1 <;> cases d2 <;> simp [scan]
    | cons x xs =>
      cases ys with
      | nil => cases d1 <;> cases d2 <;> simp [scan]
      | cons y ys =>
        simp only [scan]
        split
        · split
          · simp
          · exact ih ..
        · split
          · split
            · simp
            · exact ih ..
          · exact ih ..

/-! #### the violation block -/

theorem cvBlock_spec (c : Bool) (c1 c2 : α) (h1 : 0 ≤ c1) (h2 : 0 ≤ c2) :
    cvBlock c c1 c2 =
      if c = true ∧ c1 < c2 then some (-1) else if c = true ∧ c2 < c1 then some 1 else none := by
  unfold cvBlock
  rcases lt_trichotomy c1 c2 with h | h | h
  · have hne : c1 ≠ c2 := ne_of_lt h
    have h' : ¬ c2 < c1 := not_lt.mpr h.le
    have hc2 : c2 ≠ 0 := fun e => by rw [e] at h; exact absurd h (not_lt.mpr h1)
    cases c <;> simp [h, hne, h', hc2]
  · subst h; cases c <;> simp
  · have hne : c1 ≠ c2 := (ne_of_lt h).symm
    have h' : ¬ c1 < c2 := not_lt.mpr h.le
    have hc1 : c1 ≠ 0 := fun e => by rw [e] at h; exact absurd h (not_lt.mpr h2)
    cases c <;> simp [h, hne, h', hc1]

/-! #### the comparison -/

/-- answers "first is better" exactly when `Better a b` -/
theorem pareto_neg_one_iff (c : Bool) (dirs : List Bool) (a b : Sol α)
    (ha : WF dirs a) (hb : WF dirs b) :
    paretoCompare c dirs a b = -1 ↔ Better c dirs a b := by
  unfold paretoCompare Better
  rw [cvBlock_spec c a.cv b.cv ha.2 hb.2]
  rcases lt_trichotomy a.cv b.cv with h | h | h
  · have h' : ¬ b.cv < a.cv := not_lt.mpr h.le
    have hne : a.cv ≠ b.cv := ne_of_lt h
    cases c <;> simp [h, h', hne, scan_neg_one_iff]
  · cases c <;> simp [h, scan_neg_one_iff]
  · have h' : ¬ a.cv < b.cv := not_lt.mpr h.le
    have hne : a.cv ≠ b.cv := (ne_of_lt h).symm
    cases c <;> simp [h, h', hne, scan_neg_one_iff]

/-- answers "second is better" exactly in the mirrored situation -/
theorem pareto_one_iff (c : Bool) (dirs : List Bool) (a b : Sol α)
    (ha : WF dirs a) (hb : WF dirs b) :
    paretoCompare c dirs a b = 1 ↔ Better c dirs b a := by
  unfold paretoCompare Better
  rw [cvBlock_spec c a.cv b.cv ha.2 hb.2]
  rcases lt_trichotomy a.cv b.cv with h | h | h
  · have h' : ¬ b.cv < a.cv := not_lt.mpr h.le
    have hne : b.cv ≠ a.cv := (ne_of_lt h).symm
    cases c <;> simp [h, h', hne, scan_one_iff]
  · cases c <;> simp [h, scan_one_iff]
  · have h' : ¬ a.cv < b.cv := not_lt.mpr h.le
    have hne : b.cv ≠ a.cv := ne_of_lt h
    cases c <;> simp [h, h', hne, scan_one_iff]

theorem pareto_range (c : Bool) (dirs : List Bool) (a b : Sol α) :
    paretoCompare c dirs a b = -1 ∨ paretoCompare c dirs a b = 0 ∨ paretoCompare c dirs a b = 1 := by
  unfold paretoCompare cvBlock
  split
  · rename_i r h
    split at h
    · split at h
      · cases h; simp
      · split at h
        · cases h; simp
        · split at h
          · cases h; simp
          · split at h
            · cases h; simp
            · cases h
    · cases h
  · exact scan_range ..

/-- "neither" exactly when neither is better -/
theorem pareto_zero_iff (c : Bool) (dirs : List Bool) (a b : Sol α)
    (ha : WF dirs a) (hb : WF dirs b) :
    paretoCompare c dirs a b = 0 ↔ (¬ Better c dirs a b ∧ ¬ Better c dirs b a) := by
  rw [← pareto_neg_one_iff c dirs a b ha hb, ← pareto_one_iff c dirs a b ha hb]
  rcases pareto_range c dirs a b with h | h | h <;> simp [h]

/-! #### strict partial order -/

theorem allLe_someLt_asymm (ds : List Bool) (xs ys : List α) :
    AllLe ds xs ys → SomeLt ds ys xs → False := by
  induction ds generalizing xs ys with
  | nil => simp [SomeLt]
  | cons d ds ih =>
    cases xs with
    | nil => cases ys <;> simp [SomeLt]
    | cons x xs =>
      cases ys with
      | nil => simp [SomeLt]
      | cons y ys =>
        simp only [AllLe, SomeLt]
        rintro ⟨h1, h2⟩ (h3 | h3)
        · exact absurd h3 (not_lt.mpr h1)
        · exact ih xs ys h2 h3

/-- 'better' is asymmetric, hence irreflexive: no solution beats itself -/
theorem better_asymm (c : Bool) (dirs : List Bool) (a b : Sol α) :
    Better c dirs a b → ¬ Better c dirs b a := by
  rintro (⟨_, h⟩ | ⟨hc, hle, hlt⟩) (⟨_, h'⟩ | ⟨hc', hle', hlt'⟩)
  · exact absurd h' (not_lt.mpr h.le)
  · rcases hc' with hc' | hc'
    · simp_all
    · rw [hc'] at h; exact lt_irrefl _ h
  · rcases hc with hc | hc
    · simp_all
    · rw [hc] at h'; exact lt_irrefl _ h'
  · exact allLe_someLt_asymm _ _ _ hle hlt'

theorem better_irrefl (c : Bool) (dirs : List Bool) (a : Sol α) : ¬ Better c dirs a a :=
  fun h => better_asymm c dirs a a h h

/-- swapping the arguments negates the answer -/
theorem pareto_antisymm (c : Bool) (dirs : List Bool) (a b : Sol α)
    (ha : WF dirs a) (hb : WF dirs b) :
    paretoCompare c dirs b a = - paretoCompare c dirs a b := by
  have h1 := pareto_neg_one_iff c dirs a b ha hb
  have h2 := pareto_one_iff c dirs a b ha hb
  have h3 := pareto_neg_one_iff c dirs b a hb ha
  have h4 := pareto_one_iff c dirs b a hb ha
  have hx := better_asymm c dirs a b
  rcases pareto_range c dirs a b with h | h | h <;>
    rcases pareto_range c dirs b a with g | g | g <;> simp_all

/-- no solution beats itself -/
theorem pareto_irrefl (c : Bool) (dirs : List Bool) (a : Sol α) (ha : WF dirs a) :
    paretoCompare c dirs a a = 0 :=
  (pareto_zero_iff c dirs a a ha ha).mpr ⟨better_irrefl c dirs a, better_irrefl c dirs a⟩

/-- … nor an identical twin (same objectives, same violation, another object) -/
theorem pareto_twin_zero (c : Bool) (dirs : List Bool) (a b : Sol α) (ha : WF dirs a)
    (ho : b.objs = a.objs) (hc : b.cv = a.cv) : paretoCompare c dirs a b = 0 := by
  have hb : WF dirs b := by unfold WF at *; rw [ho, hc]; exact ha
  have key : ∀ x y : Sol α, y.objs = x.objs → y.cv = x.cv → ¬ Better c dirs x y := by
    intro x y ho hc h
    apply better_irrefl c dirs x
    unfold Better at *; rw [ho, hc] at h; exact h
  exact (pareto_zero_iff c dirs a b ha hb).mpr ⟨key a b ho hc, key b a ho.symm hc.symm⟩

theorem allLe_trans (ds : List Bool) (xs ys zs : List α)
    (h1 : xs.length = ds.length) (h2 : ys.length = ds.length) (h3 : zs.length = ds.length) :
    AllLe ds xs ys → AllLe ds ys zs → AllLe ds xs zs := by
  induction ds generalizing xs ys zs with
  | nil => cases xs <;> cases zs <;> simp [AllLe]
  | cons d ds ih =>
    match xs, ys, zs, h1, h2, h3 with
    | x :: xs, y :: ys, z :: zs, h1, h2, h3 =>
      simp only [AllLe]
      rintro ⟨a, b⟩ ⟨c, e⟩
      exact ⟨le_trans a c, ih xs ys zs (by simpa using h1) (by simpa using h2) (by simpa using h3) b e⟩

theorem someLt_trans_left (ds : List Bool) (xs ys zs : List α)
    (h1 : xs.length = ds.length) (h2 : ys.length = ds.length) (h3 : zs.length = ds.length) :
    SomeLt ds xs ys → AllLe ds ys zs → SomeLt ds xs zs := by
  induction ds generalizing xs ys zs with
  | nil => cases xs <;> cases ys <;> simp [SomeLt]
  | cons d ds ih =>
    match xs, ys, zs, h1, h2, h3 with
    | x :: xs, y :: ys, z :: zs, h1, h2, h3 =>
      simp only [AllLe, SomeLt]
      rintro (a | a) ⟨c, e⟩
      · exact Or.inl (lt_of_lt_of_le a c)
      · exact Or.inr (ih xs ys zs (by simpa using h1) (by simpa using h2) (by simpa using h3) a e)

/-- 'better' is transitive -/
theorem better_trans (c : Bool) (dirs : List Bool) (a b d : Sol α)
    (ha : WF dirs a) (hb : WF dirs b) (hd : WF dirs d) :
    Better c dirs a b → Better c dirs b d → Better c dirs a d := by
  rintro (⟨hc, h⟩ | ⟨hc, hle, hlt⟩) (⟨hc', h'⟩ | ⟨hc', hle', hlt'⟩)
  · exact Or.inl ⟨hc, lt_trans h h'⟩
  · rcases hc' with hc' | hc'
    · simp_all
    · exact Or.inl ⟨hc, hc' ▸ h⟩
  · rcases hc with hc | hc
    · simp_all
    · exact Or.inl ⟨hc', hc ▸ h'⟩
  · refine Or.inr ⟨?_, allLe_trans _ _ _ _ ha.1 hb.1 hd.1 hle hle',
      someLt_trans_left _ _ _ _ ha.1 hb.1 hd.1 hlt hle'⟩
    rcases hc with hc | hc
    · exact Or.inl hc
    · rcases hc' with hc' | hc'
      · exact Or.inl hc'
      · exact Or.inr (hc.trans hc')

/-- transitivity of the implementation's answer -/
theorem pareto_trans (c : Bool) (dirs : List Bool) (a b d : Sol α)
    (ha : WF dirs a) (hb : WF dirs b) (hd : WF dirs d)
    (h1 : paretoCompare c dirs a b = -1) (h2 : paretoCompare c dirs b d = -1) :
    paretoCompare c dirs a d = -1 :=
  (pareto_neg_one_iff c dirs a d ha hd).mpr
    (better_trans c dirs a b d ha hb hd ((pareto_neg_one_iff c dirs a b ha hb).mp h1)
      ((pareto_neg_one_iff c dirs b d hb hd).mp h2))

/-! non-vacuity: mixed directions, a tie, a constrained pair (over `Int`) -/
example : WF [false, true] (⟨0, [1, 5], 0⟩ : Sol Int) ∧ WF [false, true] (⟨1, [1, 3], 0⟩ : Sol Int) ∧
    Better true [false, true] (⟨0, [1, 5], 0⟩ : Sol Int) ⟨1, [1, 3], 0⟩ ∧
    paretoCompare true [false, true] (⟨0, [1, 5], 0⟩ : Sol Int) ⟨1, [1, 3], 0⟩ = -1 ∧
    paretoCompare true [false, true] (⟨0, [9, 0], 2⟩ : Sol Int) ⟨1, [1, 3], 3⟩ = -1 := by
  refine ⟨by simp [WF], by simp [WF], ?_, by decide, by decide⟩
  right; simp [AllLe, SomeLt, adj]

end Platypus
