import PlatypusModel.Props.C08
import PlatypusModel.Model.Operators
/-!
# C13 — seeded runs are repeatable and a saved state resumes exactly

What is logic here is proved: with a deterministic step (every operator model is a *function* of state and
draw tape — there is no hidden input), consecutive `run` calls split at step boundaries compose into the
single-call run, and resuming from a faithfully saved state equals continuing in memory.  That pickle
reproduces the algorithm object and the Mersenne-Twister state, and that no library code iterates a hash
ordered container, are runtime facts checked by differential runs (several interpreters / hash seeds).
-/
namespace Platypus.C13

open Platypus

variable {S : Type}

theorem nfe_strictMono (step : S → S) (nfe : S → Nat) (h : Progress step nfe) (s : S) (i j : Nat) (hij : i < j) :
    nfe (step^[i] s) < nfe (step^[j] s) := by
  obtain ⟨d, rfl⟩ : ∃ d, j = i + (d + 1) := ⟨j - i - 1, by omega⟩
  have := nfe_iterate_ge step nfe h (step^[i] s) (d + 1)
  rw [← Function.iterate_add_apply, Nat.add_comm (d + 1) i] at this
  omega

/-- **composition**: two consecutive calls `run(N₁); run(N₂)` end in the same state as one call whose budget
is the number of evaluations the two calls counted together -/
theorem run_split_eq_single (step : S → S) (nfe : S → Nat) (h : Progress step nfe) (N₁ N₂ : Nat) (s : S) :
    let s₁ := (run step nfe N₁ s).1
    let s₂ := (run step nfe N₂ s₁).1
    (run step nfe (nfe s₂ - nfe s) s).1 = s₂ := by
  intro s₁ s₂
  obtain ⟨k₁, k₂, h1, h2, _⟩ := run_twice step nfe h N₁ N₂ s
  have hs₁ : s₁ = step^[k₁] s := by simp [s₁, h1]
  have hs₂ : s₂ = step^[k₂ + k₁] s := by simp [s₂, hs₁, h1, h2]
  obtain ⟨k, hk, _, hbefore, hafter⟩ := run_stops_at_first_reach step nfe h (nfe s₂ - nfe s) s
  rw [hk, hs₂]
  simp only
  rw [hs₂] at hbefore hafter
  have hm : ∀ i, nfe s ≤ nfe (step^[i] s) := fun i => by
    have := nfe_iterate_ge step nfe h s i; omega
  rcases Nat.lt_trichotomy k (k₂ + k₁) with hlt | heq | hgt
  · have := nfe_strictMono step nfe h s _ _ hlt
    have := hm k; have := hm (k₂ + k₁); omega
  · rw [heq]
  · have := hbefore (k₂ + k₁) hgt
    omega

/-- **resume**: continuing from a faithfully restored state (algorithm and random generator) is continuing
the original -/
theorem resume_eq_continue {F : Type} (step : S → S) (nfe : S → Nat) (save : S → F) (load : F → S)
    (hsl : ∀ s, load (save s) = s) (N : Nat) (s : S) :
    run step nfe N (load (save s)) = run step nfe N s := by rw [hsl]

/-- the originally pinned `Replace` took its candidates in the iteration order of a Python `set`; the
outcome then depends on that order (here: two orders of the same candidate set give different offspring),
which is why seeded runs differed between interpreter processes.  The repaired operator (`replaceVars`)
takes them in declared order and has no such input. -/
def replacePinnedStep (ord : List Nat → List Nat) (n : Nat) (s : List Nat) (i j : Nat) : List Nat :=
  s.set i ((ord ((List.range n).filter (fun e => !s.contains e))).getD j 0)

theorem replace_pinned_depends_on_set_order :
    replacePinnedStep id 4 [0, 1] 0 0 ≠ replacePinnedStep List.reverse 4 [0, 1] 0 0 := by decide

end Platypus.C13
