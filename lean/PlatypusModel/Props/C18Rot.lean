import PlatypusModel.Model.UFRot
import PlatypusModel.Props.C18
set_option linter.unusedSectionVars false
/-
C18, rotated CEC 2009 instances (UF11 = R2_DTLZ2_M5, UF12 = R3_DTLZ3_M5; `Model/UFRot.lean`, compared with
platypus/problems.py on every run).

For every rotation matrix, every slope vector and every summation / `hyp` / `exp` function with `hyp 0 0 = 0` and
`exp 0 = 1`: on the part of the search space that the rotation maps into the unit cube no coordinate is penalised, all
penalties are exactly zero and the objectives are exactly `1 + inner(rotated point)` — i.e. there the instance *is* the
inner DTLZ problem in rotated coordinates, shifted by one; outside, every penalty is non-negative.
-/
namespace Platypus.C18
open Platypus

section
variable {α : Type} [Field α] [LinearOrder α] [IsStrictOrderedRing α]

/-- a coordinate that the rotation maps into `[0, 1]` is kept and not penalised -/
theorem rotCoord_inside (sum : List α → α) (row : List α) (lam : α) (x : List α)
    (h : 0 ≤ sum (List.zipWith (· * ·) row x) ∧ sum (List.zipWith (· * ·) row x) ≤ 1) :
    rotCoord sum row lam x = (sum (List.zipWith (· * ·) row x), 0) := by
  unfold rotCoord
  simp only [h, and_self, ↓reduceIte]

/-- every per-coordinate penalty is non-negative -/
theorem rotCoord_penalty_nonneg (sum : List α → α) (row : List α) (lam : α) (x : List α) :
    0 ≤ (rotCoord sum row lam x).2 := by
  unfold rotCoord
  dsimp only
  split
  · exact le_refl _
  · split
    · rename_i hz; simpa using le_of_lt hz
    · rename_i h1 h2
      have hz : 0 ≤ sum (List.zipWith (· * ·) row x) := not_lt.mp h2
      have : ¬ sum (List.zipWith (· * ·) row x) ≤ 1 := fun h => h1 ⟨hz, h⟩
      simpa using le_of_lt (not_le.mp this)

theorem c18r_foldl_hyp_zero (hyp : α → α → α) (h0 : hyp 0 0 = 0) (l : List α) (hl : ∀ q ∈ l, q = 0) :
    l.foldl hyp 0 = 0 := by
  induction l with
  | nil => rfl
  | cons a l ih =>
    have ha : a = 0 := hl a (by simp)
    subst ha
    simp only [List.foldl_cons, h0]
    exact ih (fun q hq => hl q (by simp [hq]))

theorem c18r_foldl_idx_zero (hyp : α → α → α) (h0 : hyp 0 0 = 0) (p : List α) (hp : ∀ q ∈ p, q = 0) (idx : List Nat) :
    idx.foldl (fun acc j0 => hyp acc (p.getD j0 0)) 0 = 0 := by
  induction idx with
  | nil => rfl
  | cons j idx ih =>
    have : p.getD j 0 = 0 := by
      rw [List.getD_eq_getElem?_getD]
      cases hj : p[j]? with
      | none => rfl
      | some v => exact hp v (List.mem_of_getElem? hj)
    simp only [List.foldl_cons, this, h0]
    exact ih

/-- no penalised coordinate, no penalty: all `psum` are exactly zero -/
theorem rotPenalty_zero (hyp : α → α → α) (h0 : hyp 0 0 = 0) (nobjs : Nat) (p : List α) (hp : ∀ q ∈ p, q = 0) :
    rotPenalty hyp nobjs p = List.replicate nobjs 0 := by
  unfold rotPenalty
  have ht : (p.drop (nobjs - 1)).foldl hyp 0 = 0 :=
    c18r_foldl_hyp_zero hyp h0 _ (fun q hq => hp q (List.mem_of_mem_drop hq))
  have hg : ∀ j, p.getD j 0 = 0 := by
    intro j
    rw [List.getD_eq_getElem?_getD]
    cases hj : p[j]? with
    | none => rfl
    | some v => exact hp v (List.mem_of_getElem? hj)
  apply List.ext_getElem
  · simp
  · intro i h1 h2
    simp only [List.getElem_map, List.getElem_range, List.getElem_replicate, ht]
    rw [c18r_foldl_idx_zero hyp h0 p hp]
    split
    · rw [hg, h0]
    · rfl

/-- where the rotation maps every coordinate into the unit cube, `_transform` returns the rotated point itself and zero
penalties -/
theorem rotTransform_inside (sum : List α → α) (hyp : α → α → α) (h0 : hyp 0 0 = 0) (M : List (List α)) (lam : List α)
    (nobjs : Nat) (x : List α)
    (hin : ∀ row ∈ M, 0 ≤ sum (List.zipWith (· * ·) row x) ∧ sum (List.zipWith (· * ·) row x) ≤ 1) :
    rotTransform sum hyp M lam nobjs x =
      (((M.zip lam).map fun (rl : List α × α) => sum (List.zipWith (· * ·) rl.1 x)), List.replicate nobjs 0) := by
  unfold rotTransform
  have hc : ∀ rl ∈ M.zip lam, rotCoord sum rl.1 rl.2 x = (sum (List.zipWith (· * ·) rl.1 x), 0) := by
    intro rl hrl
    exact rotCoord_inside sum rl.1 rl.2 x (hin rl.1 (List.of_mem_zip hrl).1)
  have e : (M.zip lam).map (fun (rl : List α × α) => rotCoord sum rl.1 rl.2 x) =
      (M.zip lam).map (fun (rl : List α × α) => (sum (List.zipWith (· * ·) rl.1 x), (0 : α))) :=
    List.map_congr_left hc
  simp only
  rw [show ((M.zip lam).map fun (x_1 : List α × α) => match x_1 with | (row, l) => rotCoord sum row l x) =
      (M.zip lam).map (fun (rl : List α × α) => rotCoord sum rl.1 rl.2 x) from rfl, e]
  simp only [List.map_map]
  congr 1
  apply rotPenalty_zero hyp h0
  intro q hq
  simp only [List.mem_map, Function.comp] at hq
  obtain ⟨_, _, rfl⟩ := hq
  rfl

/-- with zero penalties the objectives are exactly the inner problem's objectives plus one -/
theorem rotObjectives_no_penalty (exp : α → α) (hexp : exp 0 = 1) (inner : List α) :
    rotObjectives exp (List.replicate inner.length 0) inner = inner.map (· + 1) := by
  unfold rotObjectives
  induction inner with
  | nil => rfl
  | cons f fs ih =>
    simp only [List.length_cons, List.replicate_succ, List.zipWith_cons_cons, List.map_cons, neg_zero, hexp]
    rw [ih]
    congr 1
    have : (2 : α) / (1 + 1) = 1 := by norm_num
    rw [this, one_mul]

/-- every accumulated penalty is non-negative as soon as `hyp` is (it is a square root) -/
theorem rotPenalty_nonneg (hyp : α → α → α) (hh : ∀ a b, 0 ≤ hyp a b) (nobjs : Nat) (p : List α) :
    ∀ v ∈ rotPenalty hyp nobjs p, 0 ≤ v := by
  have hfold : ∀ (l : List α) (a : α), 0 ≤ a → 0 ≤ l.foldl hyp a := by
    intro l
    induction l with
    | nil => intro a ha; exact ha
    | cons b l ih => intro a _; exact ih _ (hh a b)
  have hidx : ∀ (idx : List Nat) (a : α), 0 ≤ a → 0 ≤ idx.foldl (fun acc j0 => hyp acc (p.getD j0 0)) a := by
    intro idx
    induction idx with
    | nil => intro a ha; exact ha
    | cons j idx ih => intro a _; exact ih _ (hh a _)
  intro v hv
  unfold rotPenalty at hv
  simp only [List.mem_map, List.mem_range] at hv
  obtain ⟨i, _, rfl⟩ := hv
  split
  · exact hh _ _
  · exact hidx _ _ (hfold _ 0 (le_refl 0))
end

/-- the hypotheses are satisfiable: the identity rotation in two variables maps (1/2, 1/4) into the unit square -/
example : rotTransform (α := Rat) List.sum (fun a b => a + b) [[1, 0], [0, 1]] [1, 1] 2 [1/2, 1/4]
    = ([1/2, 1/4], [0, 0]) := by
  decide +kernel

end Platypus.C18
