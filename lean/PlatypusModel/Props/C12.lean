import PlatypusModel.Model.Parallel
import PlatypusModel.Lemmas.Parallel
import Mathlib.Data.List.Perm.Basic
import Mathlib.Data.List.Nodup
set_option linter.unusedSectionVars false
/-!
# C12 — parallel evaluation returns results in job order under any completion order

* chunking and the three collector shapes: for every completion order the returned list is `jobs.map run`;
* the MPI pool as a transition system: for **every schedule** (every interleaving of worker steps and
  master receives), every number of workers ≥ 1 and every number of tasks, with and without load
  balancing — when the master has returned, `results = tasks.map f`; and no reachable configuration
  before that is stuck;
* experiment results are filed under the algorithm and problem that produced them, in job order.
MPI's non-overtaking FIFO delivery per (sender, receiver) pair is an assumption of the model.
-/
namespace Platypus

variable {τ ρ : Type}

/-! ### chunks and collectors -/

theorem chunks_concat (n : Int) (items : List τ) : (chunks n items).flatten = items := by
  unfold chunks
  split
  · cases items <;> simp
  · exact chunksAux_flatten _ (by omega) _ _ (Nat.le_refl _)

theorem chunks_sizes (n : Int) (hn : 0 < n) (items : List τ) :
    (∀ c ∈ chunks n items, c.length ≤ n.toNat ∧ c ≠ []) ∧
    (∀ c ∈ (chunks n items).dropLast, c.length = n.toNat) := by
  unfold chunks
  rw [if_neg (by omega)]
  exact chunksAux_sizes _ (by omega) _ _

/-- serial / pool map, with or without progress-log chunking: one result per job, in job order -/
theorem map_evaluator_order (run : τ → ρ) (logFrequency : Option Int) (jobs : List τ) :
    mapEvaluate run logFrequency jobs = jobs.map run := by
  cases logFrequency with
  | none => rfl
  | some n =>
    simp only [mapEvaluate]
    conv_rhs => rw [← chunks_concat n jobs]
    rw [List.map_flatten, List.flatMap_def]

/-- submit / apply evaluators: whatever order the futures complete in (every job completes at least
once, repeats and out-of-range indices are harmless), collecting them in submission order yields
`jobs.map run` -/
theorem futures_evaluator_order (run : τ → ρ) (jobs : List τ) (order : List Nat)
    (hall : ∀ i, i < jobs.length → i ∈ order) :
    collect (completeAll run jobs order) = some (jobs.map run) := by
  have h := completeAll_aux run jobs order (List.replicate jobs.length none) (by simp)
    (by
      intro i t ht
      left
      have : i < jobs.length := (List.getElem?_eq_some_iff.mp ht).1
      simp [this])
  obtain ⟨r1, r3⟩ := h
  rw [← completeAll_eq] at r1 r3
  have : completeAll run jobs order = (jobs.map run).map some := by
    apply List.ext_getElem?
    intro i
    by_cases hi : i < jobs.length
    · have ht : jobs[i]? = some jobs[i] := List.getElem?_eq_getElem hi
      rw [r3 i _ ht (Or.inr (hall i hi))]
      simp [hi]
    · have h1 : (completeAll run jobs order)[i]? = none := by
        apply List.getElem?_eq_none
        omega
      rw [h1, List.getElem?_eq_none (by simp; omega)]
  unfold collect
  rw [this, mapM_id_map_some]

/-! ### MPI pool -/

/-- **for every schedule**: when the master has returned, the results are exactly `tasks.map f`, in
task order -/
theorem mpi_map_correct (f : τ → ρ) (size : Nat) (hsize : 1 ≤ size) (lb : Bool) (tasks : List τ)
    (c : MCfg τ ρ) (hr : Reachable f size lb tasks c) (hd : c.phase = .done) :
    c.results = tasks.map (fun t => some (f t)) := by
  exact (MpiInv.of_reachable hsize hr).map_correct hd

/-- no reachable configuration in which the master still waits is stuck: some action is enabled
(so under any fair scheduler `map` returns) -/
theorem mpi_no_stuck (f : τ → ρ) (size : Nat) (hsize : 1 ≤ size) (lb : Bool) (tasks : List τ)
    (c : MCfg τ ρ) (hr : Reachable f size lb tasks c) (hd : c.phase ≠ .done) :
    ∃ a c', mpiStep f size tasks c a = some c' := by
  exact (MpiInv.of_reachable hsize hr).no_stuck hsize hd

/-- a worker never has to run a task before it received the function (the `_error_function` branch is
unreachable) -/
theorem mpi_function_before_tasks (f : τ → ρ) (size : Nat) (hsize : 1 ≤ size) (lb : Bool) (tasks : List τ)
    (c : MCfg τ ρ) (hr : Reachable f size lb tasks c) (w : Nat) (tag : Nat) (t : τ) (rest : List (ToWorker τ))
    (h : c.inbox[w]? = some (.task tag t :: rest)) : c.hasFn.getD w false = true := by
  exact (MpiInv.of_reachable hsize hr).function_before_tasks w tag t rest h

/-! ### experiment filing -/

/-- every job's result is filed under its own algorithm and problem; within one (algorithm, problem)
the entries are the results of exactly those jobs, in job order: one entry per replicate -/
theorem experiment_filing {κ : Type} (jobs : List (JobResult κ)) (a p : String) :
    (((fileResults jobs).find? (·.1 == a)).bind fun x => (x.2.find? (·.1 == p)).map (·.2)).getD [] =
      (jobs.filter (fun j => j.algorithm == a && j.problem == p)).map (·.result) := by
  have h := lk2_foldl jobs a p []
  rw [← fileResults_eq] at h
  have h0 : lk2 ([] : List (String × List (String × List κ))) a p = [] := rfl
  rw [h0, List.nil_append] at h
  rw [← h]
  unfold lk2 lk
  cases (fileResults jobs).find? (·.1 == a) <;> rfl

end Platypus
