import PlatypusModel.Props.C06Subset
set_option linter.unusedSectionVars false
/-!
# C07 — why every argument of the problem function is valid, for every run of a generational algorithm

`Props/C07.lean` judges recorded traces of real runs.  This file adds the statement for *all* runs of the common
skeleton of the library's generational algorithms (GA, ES, NSGA-II, NSGA-III, SPEA2, GDE3, eps-NSGA-II, eps-MOEA, PAES,
PESA2, IBEA): parents are selected from the current population in any way whatsoever, a variator that is valid for the
declared types (`OperValid`, proved for every shipped operator and combinator in C06) produces the offspring, and the
next population is chosen from offspring and population in any way whatsoever.  Then, for every number of generations,
every selection rule, every survival rule and every draw tape: every offspring ever produced — i.e. every decision
vector ever submitted to the user's function — and every member of every population is valid for the declared types.
-/
namespace Platypus

section
variable {α : Type} [LE α] [DecidableLE α] [LT α] [DecidableLT α] [BEq α]

/-- a generational skeleton: how parent groups are drawn, the variator, how survivors are chosen -/
structure GenLoop (α : Type) where
  select : List (OSol α) → M α (List (List (OSol α)))
  vary : Oper α
  survive : List (OSol α) → List (OSol α) → List (OSol α)       -- offspring, population ↦ next population

/-- apply the variator to every parent group, threading the tape; all offspring in order -/
def varyAll (v : Oper α) : List (List (OSol α)) → M α (List (OSol α))
  | [] => fun tape => .ok ([], tape)
  | g :: gs => fun tape => do
    let (kids, tape) ← v.evolve g tape
    let (rest, tape) ← varyAll v gs tape
    pure (kids ++ rest, tape)

/-- one generation: the offspring (what gets evaluated) and the next population -/
def GenLoop.generation (L : GenLoop α) (pop : List (OSol α)) : M α (List (OSol α) × List (OSol α)) := fun tape => do
  let (groups, tape) ← L.select pop tape
  let (offspring, tape) ← varyAll L.vary groups tape
  pure ((offspring, L.survive offspring pop), tape)

/-- `n` generations: everything that was evaluated on the way, and the final population -/
def GenLoop.run (L : GenLoop α) : Nat → List (OSol α) → M α (List (OSol α) × List (OSol α))
  | 0, pop => fun tape => .ok (([], pop), tape)
  | n + 1, pop => fun tape => do
    let ((off, pop'), tape) ← L.generation pop tape
    let ((offs, popn), tape) ← L.run n pop' tape
    pure ((off ++ offs, popn), tape)

/-- the two facts the skeleton needs: parents come from the population, survivors from offspring and population -/
structure GenLoop.Sane (L : GenLoop α) : Prop where
  select_mem : ∀ pop tape groups tape', L.select pop tape = .ok (groups, tape') → ∀ g ∈ groups, ∀ p ∈ g, p ∈ pop
  survive_mem : ∀ off pop, ∀ s ∈ L.survive off pop, s ∈ off ∨ s ∈ pop

theorem varyAll_valid (types : List (TypeD α)) (v : Oper α) (hv : OperValid types v) (groups : List (List (OSol α)))
    (hg : ∀ g ∈ groups, ∀ p ∈ g, ValidSol types p) (tape tape' : Tape α) (kids : List (OSol α))
    (h : varyAll v groups tape = .ok (kids, tape')) : ∀ c ∈ kids, ValidSol types c := by
  induction groups generalizing tape kids with
  | nil =>
    simp only [varyAll, Except.ok.injEq, Prod.mk.injEq] at h
    obtain ⟨rfl, _⟩ := h
    simp
  | cons g gs ih =>
    simp only [varyAll] at h
    obtain ⟨⟨k1, t1⟩, hr, h⟩ := exceptBindOk h
    obtain ⟨⟨k2, t2⟩, hr2, h⟩ := exceptBindOk h
    simp only [pure, Except.pure, Except.ok.injEq, Prod.mk.injEq] at h
    obtain ⟨rfl, rfl⟩ := h
    intro c hc
    rcases List.mem_append.mp hc with hc | hc
    · exact hv g tape k1 t1 (hg g (by simp)) hr c hc
    · exact ih (fun g' hg' => hg g' (by simp [hg'])) t1 k2 hr2 c hc

/-- one generation keeps validity: offspring valid, next population valid -/
theorem generation_valid (types : List (TypeD α)) (L : GenLoop α) (hs : L.Sane) (hv : OperValid types L.vary)
    (pop : List (OSol α)) (hp : ∀ p ∈ pop, ValidSol types p) (tape tape' : Tape α) (off pop' : List (OSol α))
    (h : L.generation pop tape = .ok ((off, pop'), tape')) :
    (∀ c ∈ off, ValidSol types c) ∧ (∀ p ∈ pop', ValidSol types p) := by
  unfold GenLoop.generation at h
  obtain ⟨⟨groups, t1⟩, hsel, h⟩ := exceptBindOk h
  obtain ⟨⟨o, t2⟩, hvar, h⟩ := exceptBindOk h
  simp only [pure, Except.pure, Except.ok.injEq, Prod.mk.injEq] at h
  obtain ⟨⟨rfl, rfl⟩, _⟩ := h
  have hoff : ∀ c ∈ o, ValidSol types c :=
    varyAll_valid types L.vary hv groups (fun g hg p hpg => hp p (hs.select_mem pop tape groups t1 hsel g hg p hpg)) t1 t2 o hvar
  refine ⟨hoff, ?_⟩
  intro p hpm
  rcases hs.survive_mem o pop p hpm with h1 | h1
  · exact hoff p h1
  · exact hp p h1

/-- **every run**: whatever the selection, the survival rule, the number of generations and the draws, every decision vector
ever produced for evaluation and every member of the final population is valid for the declared types -/
theorem run_valid (types : List (TypeD α)) (L : GenLoop α) (hs : L.Sane) (hv : OperValid types L.vary)
    (n : Nat) (pop : List (OSol α)) (hp : ∀ p ∈ pop, ValidSol types p) (tape tape' : Tape α)
    (evaluated popn : List (OSol α)) (h : L.run n pop tape = .ok ((evaluated, popn), tape')) :
    (∀ c ∈ evaluated, ValidSol types c) ∧ (∀ p ∈ popn, ValidSol types p) := by
  induction n generalizing pop tape evaluated with
  | zero =>
    simp only [GenLoop.run, Except.ok.injEq, Prod.mk.injEq] at h
    obtain ⟨⟨rfl, rfl⟩, _⟩ := h
    exact ⟨by simp, hp⟩
  | succ n ih =>
    simp only [GenLoop.run] at h
    obtain ⟨⟨⟨off, pop'⟩, t1⟩, hgen, h⟩ := exceptBindOk h
    obtain ⟨⟨⟨offs, pn⟩, t2⟩, hrun, h⟩ := exceptBindOk h
    simp only [pure, Except.pure, Except.ok.injEq, Prod.mk.injEq] at h
    obtain ⟨⟨rfl, rfl⟩, rfl⟩ := h
    have g := generation_valid types L hs hv pop hp tape t1 off pop' hgen
    have r := ih pop' g.2 t1 offs hrun
    refine ⟨?_, r.2⟩
    intro c hc
    rcases List.mem_append.mp hc with hc | hc
    · exact g.1 c hc
    · exact r.1 c hc

/-- the hypotheses are satisfiable: "take the first two as parents, copy them, keep the first |pop| of offspring ++ population"
is a sane loop with a valid variator -/
example (types : List (TypeD α)) :
    let L : GenLoop α := { select := fun pop tape => .ok ([pop.take 2], tape),
                           vary := { arity := 2, evolve := fun ps tape => .ok (ps, tape) },
                           survive := fun off pop => (off ++ pop).take pop.length }
    L.Sane ∧ OperValid types L.vary := by
  refine ⟨⟨?_, ?_⟩, ?_⟩
  · intro pop tape groups tape' h g hg p hp
    simp only [Except.ok.injEq, Prod.mk.injEq] at h
    obtain ⟨rfl, _⟩ := h
    simp only [List.mem_singleton] at hg
    subst hg
    exact List.mem_of_mem_take hp
  · intro off pop s hs
    exact List.mem_append.mp (List.mem_of_mem_take hs)
  · intro parents tape kids tape' hp h
    simp only [Except.ok.injEq, Prod.mk.injEq] at h
    obtain ⟨rfl, _⟩ := h
    exact hp
end

end Platypus
