import PlatypusModel.Props.C18
import Mathlib.Analysis.SpecialFunctions.Trigonometric.Basic
import Mathlib.Analysis.SpecialFunctions.Pow.Real
/-
Non-vacuity of `C18.TrigOK`: the real functions satisfy it, so every C18 theorem holds of the reference
implementations evaluated over ℝ.
-/
namespace Platypus.C18
open Platypus

noncomputable def realTrig : Trig ℝ :=
  { cos := Real.cos, sin := Real.sin, sqrt := Real.sqrt, exp := Real.exp, pow := Real.rpow, pi := Real.pi,
    ofNat := fun n => (n : ℝ) }

theorem realTrig_ok : TrigOK realTrig := by
  refine ⟨?_, ?_, ?_, ?_⟩
  · intro x
    show Real.cos x * Real.cos x + Real.sin x * Real.sin x = 1
    rw [← sq, ← sq]
    exact Real.cos_sq_add_sin_sq x
  · exact Real.cos_zero
  · intro n
    rfl
  · intro x y hx
    exact Real.rpow_nonneg hx y

/-- DTLZ2 over ℝ, any number of objectives and variables: never below the unit sphere -/
theorem dtlz2_front_real (M : Nat) (hM : 1 ≤ M) (x : List ℝ) (hx : M - 1 ≤ x.length) :
    1 ≤ sumSq (dtlz2 realTrig M x) := by
  exact dtlz2_front realTrig realTrig_ok M hM x hx

end Platypus.C18
