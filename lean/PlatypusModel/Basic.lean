def hello := "world"
