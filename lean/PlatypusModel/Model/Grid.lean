import PlatypusModel.Model.Dominance
/-
Model of platypus/core.py: AdaptiveGridArchive (add, remove, adapt_grid, find_index, find_densest,
pick_from_densest).  Core Lean only.

The archive is a state machine over (contents, bounds, density).  The arithmetic of `find_index`
is a parameter `cell : bounds → solution → Option Nat` (`none` = Python's -1, "outside the grid") so
that the bookkeeping theorems hold for every cell function; `findIndex` below is the literal
transcription, instantiated at `Float` and `Rat` by the driver.

Python → model
* `self.density[i]` with `i = -1` aliases the last cell                  → `densAt` / `densUpd` on `Option Nat`
* `adapt_grid`: recompute bounds from the members, zero the density, count → `adaptGrid`
* `remove`: identity-based `list.remove`, then decrement or re-adapt      → `gridRemove`
* `add`: as in the source; `adaptOnEvict = true` is the repaired code (members dominated by the
  newcomer leave through a path that keeps `density` consistent), `false` the originally pinned code
  which dropped them without touching `density`
-/
namespace Platypus

structure GridArchive (σ β : Type) where
  contents : List σ
  bounds : β
  density : List Nat

section
variable {σ β : Type}

def densAt (d : List Nat) : Option Nat → Nat
  | some c => d.getD c 0
  | none => d.getLast?.getD 0

def densUpd (d : List Nat) (i : Option Nat) (f : Nat → Nat) : List Nat :=
  match i with
  | some c => d.modify c f
  | none => if d.isEmpty then d else d.modify (d.length - 1) f

structure GridCfg (σ β : Type) where
  cmp : σ → σ → Int
  getId : σ → Nat
  mkBounds : List σ → β
  cell : β → σ → Option Nat
  ncells : Nat
  capacity : Nat
  adaptOnEvict : Bool := true

variable (cfg : GridCfg σ β)

/-- `adapt_grid()` for the given contents -/
def adaptGrid (contents : List σ) : GridArchive σ β :=
  let b := cfg.mkBounds contents
  { contents := contents, bounds := b,
    density := contents.foldl (fun d s => densUpd d (cfg.cell b s) (· + 1)) (List.replicate cfg.ncells 0) }

/-- remove the first occurrence of the object `s` (by identity) -/
def eraseId (getId : σ → Nat) (s : σ) : List σ → List σ
  | [] => []
  | m :: ms => if getId m == getId s then ms else m :: eraseId getId s ms

/-- `remove(solution)` -/
def gridRemove (g : GridArchive σ β) (s : σ) : GridArchive σ β :=
  if g.contents.any (fun m => cfg.getId m == cfg.getId s) then
    let c := eraseId cfg.getId s g.contents
    let i := cfg.cell g.bounds s
    if densAt g.density i > 1 then { g with contents := c, density := densUpd g.density i (· - 1) }
    else adaptGrid cfg c
  else g

/-- `find_densest()`: cell index of the first member attaining the largest density (`none` = -1) -/
def findDensest (g : GridArchive σ β) : Option Nat :=
  (g.contents.foldl (fun (acc : Option Nat × Int) m =>
      let ti := cfg.cell g.bounds m
      let tv : Int := densAt g.density ti
      if tv > acc.2 then (ti, tv) else acc) (none, -1)).1

/-- `pick_from_densest()` -/
def pickFromDensest (g : GridArchive σ β) : Option σ :=
  (g.contents.foldl (fun (acc : Option σ × Int) m =>
      let tv : Int := densAt g.density (cfg.cell g.bounds m)
      if tv > acc.2 then (some m, tv) else acc) (none, -1)).1

/-- `add(solution)` -/
def gridAdd (g : GridArchive σ β) (s : σ) : GridArchive σ β × Bool :=
  if g.contents.any (fun m => cfg.cmp s m > 0) then (g, false)
  else
    let kept := g.contents.filter (fun m => cfg.cmp s m = 0)
    let g1 : GridArchive σ β :=
      if cfg.adaptOnEvict && kept.length < g.contents.length then adaptGrid cfg kept
      else { g with contents := kept }
    if g1.contents.isEmpty then (adaptGrid cfg [s], true)
    else
      let c2 := g1.contents ++ [s]
      let idx := cfg.cell g1.bounds s
      let g2 : GridArchive σ β :=
        match idx with
        | none => adaptGrid cfg c2
        | some i => { g1 with contents := c2, density := densUpd g1.density (some i) (· + 1) }
      let idx2 := match idx with
        | none => cfg.cell g2.bounds s
        | some i => some i
      if c2.length ≤ cfg.capacity then (g2, true)
      else if densAt g2.density idx2 == densAt g2.density (findDensest cfg g2) then (gridRemove cfg g2 s, false)
      else match pickFromDensest cfg g2 with
        | some p => (gridRemove cfg g2 p, true)
        | none => (g2, true)

/-- the empty archive (`__init__` calls `adapt_grid()`) -/
def gridInit : GridArchive σ β := adaptGrid cfg []

def gridRun (xs : List σ) : GridArchive σ β := xs.foldl (fun g s => (gridAdd cfg g s).1) (gridInit cfg)
end

/-! ### literal `find_index` arithmetic -/
section
variable {α : Type} [LT α] [DecidableLT α] [Sub α] [Div α] [Mul α] [OfNat α 0]

/-- `find_index`: `none` when outside the bounds in some objective -/
def findIndexLoop (ofNat : Nat → α) (trunc : α → Nat) (divisions : Nat) :
    List α → List α → List α → Nat → Nat → Option Nat
  | lo :: los, hi :: his, v :: vs, pw, acc =>
    if v < lo ∨ hi < v then none
    else
      let value := if lo < hi then (v - lo) / (hi - lo) else 0
      let t := trunc (ofNat divisions * value)
      let t := if t = divisions then t - 1 else t
      findIndexLoop ofNat trunc divisions los his vs (pw * divisions) (acc + t * pw)
  | _, _, _, _, acc => some acc

def findIndex (ofNat : Nat → α) (trunc : α → Nat) (divisions : Nat) (lo hi objs : List α) : Option Nat :=
  findIndexLoop ofNat trunc divisions lo hi objs 1 0
end

end Platypus
