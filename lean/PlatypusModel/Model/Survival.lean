import PlatypusModel.Model.Sorting
/-
Model of the survival selection of platypus/algorithms.py: NSGA-II (`iterate`), GDE3 (`survival`),
SPEA2 (`_assign_fitness` raw part, `_truncate`), GeneticAlgorithm / EvolutionaryStrategy (`iterate`).
Core Lean only.

Python → model
* NSGA-II: `offspring.extend(population); nondominated_sort(offspring); population =
  nondominated_truncate(offspring, N)`                             → `nsga2Survival` (ranks by `sortFronts`, crowding
  distance per front by `crowdingF`, stable sort on (rank, -crowding), take N)
* GDE3: pairwise `compare(offspring[i], population[i])` (keep offspring if ≤ 0, parent if ≥ 0),
  `nondominated_sort`, `nondominated_prune`                        → `gde3Pairwise`, `gde3Survival`
* SPEA2 `_truncate`: everything with fitness < 1 survives; if fewer than `size`, fill with the best of
  the rest (stable sort by fitness); else delete "most crowded" members one by one → `spea2Truncate`
  (the choice of the most crowded member is a parameter: the theorem holds for every choice)
* SPEA2 raw fitness: strength = #solutions it dominates; raw(x) = Σ strength(y) over y dominating x
                                                                   → `spea2Raw`
* GA: `offspring.append(fittest); sorted(...)[:N]`; ES: `offspring.extend(population); sorted(...)[:N]`
                                                                   → `gaSurvival`, `esSurvival`
-/
namespace Platypus

/-- ranks and crowding distances as `nondominated_sort` assigns them, for a merged population -/
def rankAndCrowd (c : Bool) (dirs : List Bool) (merged : List (Sol Float)) : List (Ranked Float) :=
  let fronts := sortFronts (paretoCompare c dirs) (·.id) merged
  let nobjs := dirs.length
  let table : List (Nat × Nat × Float) :=
    (fronts.zipIdx).flatMap fun (fr, r) =>
      (fr.zip (crowdingF nobjs (fr.map (·.objs)))).map fun (s, cd) => (s.id, r, cd)
  merged.map fun s =>
    match table.find? (fun t => t.1 == s.id) with
    | some t => { id := s.id, rank := t.2.1, cd := t.2.2 }
    | none => { id := s.id, rank := 0, cd := 0.0 }

/-- NSGA-II survival: ids of the next population; `merged = offspring ++ population` -/
def nsga2Survival (c : Bool) (dirs : List Bool) (merged : List (Sol Float)) (N : Nat) : List Nat :=
  (nondominatedTruncate (rankAndCrowd c dirs merged) N).map (·.id)

section
variable {σ : Type}

/-- GDE3's pairwise replacement -/
def gde3Pairwise (cmp : σ → σ → Int) : List σ → List σ → List σ
  | o :: os, p :: ps =>
    let flag := cmp o p
    (if flag ≤ 0 then [o] else []) ++ (if flag ≥ 0 then [p] else []) ++ gde3Pairwise cmp os ps
  | _, _ => []

/-- SPEA2 `_truncate` with an arbitrary "most crowded" choice -/
def spea2Reduce (pick : List σ → Nat) : Nat → List σ → Nat → List σ
  | 0, l, _ => l
  | fuel + 1, l, size => if l.length > size then spea2Reduce pick fuel (l.eraseIdx (pick l)) size else l

def spea2Truncate (good : σ → Bool) (le : σ → σ → Bool) (pick : List σ → Nat) (sols : List σ) (size : Nat) :
    List σ :=
  let survivors := sols.filter good
  if survivors.length < size then
    survivors ++ ((sols.filter (fun s => !good s)).mergeSort le).take (size - survivors.length)
  else spea2Reduce pick survivors.length survivors size

/-- SPEA2 strength and raw fitness (the integer part of the fitness) -/
def spea2Strength (cmp : σ → σ → Int) (sols : List σ) (x : σ) : Nat :=
  (sols.filter (fun y => cmp x y < 0)).length

def spea2Raw (cmp : σ → σ → Int) (sols : List σ) (x : σ) : Nat :=
  ((sols.filter (fun y => cmp y x < 0)).map (spea2Strength cmp sols)).sum

/-- GA: `offspring + [fittest]`, stable sort, first N -/
def gaSurvival (le : σ → σ → Bool) (offspring : List σ) (fittest : σ) (N : Nat) : List σ :=
  truncateBy le (offspring ++ [fittest]) N

/-- ES: `offspring + population`, stable sort, first N -/
def esSurvival (le : σ → σ → Bool) (offspring population : List σ) (N : Nat) : List σ :=
  truncateBy le (offspring ++ population) N
end

/-- GDE3 survival on doubles: ids of the next population -/
def gde3Survival (c : Bool) (dirs : List Bool) (offspring population : List (Sol Float)) (N : Nat) : List Nat :=
  let next := gde3Pairwise (paretoCompare c dirs) offspring population
  let ranked := rankAndCrowd c dirs next
  let withObjs := ranked.zip next
  let res := nondominatedPrune (fun (p : Ranked Float × Sol Float) => p.1.rank)
    (fun rem => crowdingF dirs.length (rem.map (·.2.objs))) (fun a b => a >= b) withObjs N
  res.map (·.1.id)

end Platypus
