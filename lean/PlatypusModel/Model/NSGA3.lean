import PlatypusModel.Model.Survival
import PlatypusModel.Model.LinAlg
/-
Model of NSGA-III's environmental selection, `NSGAIII._reference_point_truncate` (platypus/algorithms.py), as a
function of the merged, rank-annotated population.  Core Lean only.

Python → model
* `nondominated_split(solutions, size)`                                   → `nondominatedSplit` (Sorting.lean)
* ideal point update with `min`, translation, `_find_extreme_points` (achievement scalarisation with weights
  1e-6 / 1.0, `max` of a list, strict `<` scan starting from index -1)     → `n3Ideal`, `n3Extreme`
* intercepts: `lsolve(A, [1.0]*n)`, `1.0 / x_i`; any exception or an intercept `< 0.001` makes the case
  degenerate: `max([column] + [EPSILON])`                                   → `n3Intercepts`
* `point_line_dist`, `_associate_to_reference_point` (strict `<`, start index -1 = last reference point),
  `_find_minimum_distance`                                                  → `pointLineDist`, `n3Assoc`, `n3FindMin`
* the niching loop (reference points with the fewest members among those not excluded, `random.choice`, closest
  candidate if the niche is empty, random candidate otherwise, exclusion of exhausted niches)
                                                                           → `minIndices`, `nicheStep`, `nicheLoop`
  The loop is generic in the solution type and in the "closest candidate" choice: the theorems hold for every
  association and every choice; the Float instance `nsga3Truncate` is what the correspondence check runs.
-/
namespace Platypus

/-- recorded `random.randrange(n) = k` outcomes (what `random.choice` consumes) -/
abbrev RTape := List (Nat × Nat)

inductive N3Err where
  | tape | index | fuel
  deriving Repr, DecidableEq

def popChoice (n : Nat) : RTape → Except N3Err (Nat × RTape)
  | (m, k) :: t => if n == 0 then .error .index else if m == n && k < n then .ok (k, t) else .error .tape
  | [] => if n == 0 then .error .index else .error .tape

section
variable {σ : Type}

structure Niche (σ : Type) where
  result : List σ
  members : List Nat             -- `len(members[i])`
  potential : List (List σ)
  excluded : List Bool           -- `i in excluded`

/-- the scan for the least crowded reference points: `(min_indices, min_count)`; `none` = `sys.maxsize` -/
def minIndices (members : List Nat) (excluded : List Bool) : List Nat × Option Nat :=
  (members.zipIdx).foldl (fun (acc : List Nat × Option Nat) (p : Nat × Nat) =>
      let (m, i) := p
      if excluded.getD i false then acc
      else match acc.2 with
        | none => ([i], some m)
        | some mc => if m < mc then ([i], some m) else if m == mc then (acc.1 ++ [i], some mc) else acc)
    ([], none)

/-- one pass through the body of `while len(result) < size` -/
def nicheStep (findMin : List σ → Nat → Nat) (st : Niche σ) (tape : RTape) : Except N3Err (Niche σ × RTape) := do
  let (mins, mc) := minIndices st.members st.excluded
  let (k, tape) ← popChoice mins.length tape
  let idx := mins.getD k 0
  let pot := st.potential.getD idx []
  if pot.isEmpty then
    pure ({ st with excluded := st.excluded.set idx true }, tape)
  else do
    let (j, tape) ← if mc == some 0 then pure (findMin pot idx, tape) else popChoice pot.length tape
    match pot[j]? with
    | none => .error .index
    | some s =>
      pure ({ result := st.result ++ [s],
              members := st.members.set idx (st.members.getD idx 0 + 1),
              potential := st.potential.set idx (pot.eraseIdx j),
              excluded := st.excluded }, tape)

def nicheLoop (findMin : List σ → Nat → Nat) (size : Nat) : Nat → Niche σ → RTape → Except N3Err (List σ × RTape)
  | 0, st, tape => if st.result.length < size then .error .fuel else .ok (st.result, tape)
  | fuel + 1, st, tape =>
    if st.result.length < size then do
      let (st', tape) ← nicheStep findMin st tape
      nicheLoop findMin size fuel st' tape
    else .ok (st.result, tape)

/-- `_associate_to_reference_point`: one list per reference point, in the order of `sols` -/
def associate (nrefs : Nat) (assoc : σ → Nat) (sols : List σ) : List (List σ) :=
  (List.range nrefs).map fun i => sols.filter fun s => assoc s == i

/-- the whole truncation for given ranks, association and closest-candidate choice -/
def nsga3TruncateG (rank : σ → Nat) (nrefs : Nat) (assoc : σ → Nat) (findMin : List σ → Nat → Nat)
    (sols : List σ) (size : Nat) (tape : RTape) : Except N3Err (List σ × RTape) :=
  if sols.length > size then
    let (result, remaining) := nondominatedSplit rank sols size
    let st : Niche σ :=
      { result := result,
        members := (associate nrefs assoc result).map (·.length),
        potential := associate nrefs assoc remaining,
        excluded := List.replicate nrefs false }
    nicheLoop findMin size (nrefs + size + 1) st tape
  else .ok (sols, tape)
end

/-! ### the arithmetic on doubles -/

def listMax (l : List Float) : Float :=
  match l with
  | [] => 0.0
  | x :: xs => xs.foldl pyMax x

/-- `ideal_point[i] = min(ideal_point[i], solution.objectives[i])` over all solutions -/
def n3Ideal (ideal : List Float) (objs : List (List Float)) : List Float :=
  objs.foldl (fun id o => List.zipWith pyMin id o) ideal

/-- index of the extreme point for objective `k` (`-1`, i.e. the last solution, if no value is below +inf) -/
def n3Extreme (nobjs : Nat) (norm : List (List Float)) (k : Nat) : Nat :=
  let value (o : List Float) : Float :=
    listMax ((List.range nobjs).map fun j => o.getD j 0.0 / (if j == k then 1.0 else 0.000001))
  let r := (norm.zipIdx).foldl (fun (st : Option Nat × Float) (p : List Float × Nat) =>
      let v := value p.1
      if v < st.2 then (some p.2, v) else st) (none, INF)
  r.1.getD (norm.length - 1)

def n3Intercepts (nobjs : Nat) (norm : List (List Float)) : List Float :=
  let extreme := (List.range nobjs).map fun k => norm.getD (n3Extreme nobjs norm k) []
  let fromSolve : Option (List Float) :=
    match lsolve EPSILON extreme (List.replicate nobjs 1.0) with
    | .error _ => none
    | .ok x =>
      if x.any (· == 0.0) then none            -- `1.0 / i` raises ZeroDivisionError
      else
        let ic := x.map (1.0 / ·)
        if ic.any (· < 0.001) then none else some ic
  match fromSolve with
  | some ic => ic
  | none => (List.range nobjs).map fun i => listMax (norm.map (·.getD i 0.0) ++ [EPSILON])

def dotF (x y : List Float) : Float := (List.zipWith (· * ·) x y).foldl (· + ·) 0.0

/-- `point_line_dist(point, line)`; `none` = ZeroDivisionError (`dot(line, line) == 0`) -/
def pointLineDist (point line : List Float) : Option Float :=
  let d := dotF line line
  if d == 0.0 then none
  else
    let s := dotF line point / d
    let diff := List.zipWith (fun l p => s * l - p) line point
    some (Float.sqrt (dotF diff diff))

/-- strict-`<` scan from `(-1, +inf)`; the index `-1` is the last element -/
def argminDist (ds : List Float) : Nat :=
  let r := (ds.zipIdx).foldl (fun (st : Option Nat × Float) (p : Float × Nat) =>
      if p.1 < st.2 then (some p.2, p.1) else st) (none, INF)
  r.1.getD (ds.length - 1)

structure N3Sol where
  id : Nat
  rank : Nat
  norm : List Float
  assoc : Nat

/-- survivors' ids and the new ideal point; `none` = ZeroDivisionError in `point_line_dist` (an all-zero reference point) -/
def nsga3Truncate (c : Bool) (dirs : List Bool) (ideal : List Float) (refs : List (List Float))
    (merged : List (Sol Float)) (size : Nat) (tape : RTape) : Option (Except N3Err (List Nat × List Float × RTape)) :=
  let nobjs := dirs.length
  if merged.length > size then
    let ranked := rankAndCrowd c dirs merged
    let ideal' := n3Ideal ideal (merged.map (·.objs))
    let trans := merged.map fun s => List.zipWith (· - ·) s.objs ideal'
    let ic := n3Intercepts nobjs trans
    let norm := trans.map fun o => List.zipWith (· / ·) o ic
    if refs.any (fun r => dotF r r == 0.0) then none else
    let dist (o r : List Float) : Float := (pointLineDist o r).getD 0.0
    let sols : List N3Sol := (merged.zip (ranked.zip norm)).map fun (s, r, o) =>
      { id := s.id, rank := r.rank, norm := o, assoc := argminDist (refs.map (dist o)) }
    let findMin (pot : List N3Sol) (idx : Nat) : Nat := argminDist (pot.map fun s => dist s.norm (refs.getD idx []))
    some (match nsga3TruncateG (·.rank) refs.length (·.assoc) findMin sols size tape with
      | .error e => .error e
      | .ok (r, t) => .ok (r.map (·.id), ideal', t))
  else some (.ok (merged.map (·.id), ideal, tape))

end Platypus
