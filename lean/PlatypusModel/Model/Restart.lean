/-
Model of the evaluation bookkeeping of adaptive time continuation (platypus/extensions.py
`AdaptiveTimeContinuationExtension.restart`, attached to eps-NSGA-II by its constructor and to any algorithm by
`add_extension`), on sizes only, on top of the generational step model (`Model/GenStep.lean`).  Core Lean only.

One iteration of `Algorithm.run`'s loop is `step()` followed by the extensions' `post_step`; a restart, when the extension
decides on one, therefore happens between the step and the next evaluation of the termination condition.

Python → model
* `population = archive[:]`, `new_size = int(self.population_ratio * len(archive))` clamped to
  `[min_population_size, max_population_size]` (`if new_size < min: … elif new_size > max: …`)            → `newSize`
  (`population_ratio` is a natural number here: 4.0 by default, 2.0 in the traced configuration; `int(r * a)` is then `r * a`)
* `while len(population) + len(offspring) < new_size: offspring.extend(self.mutator.evolve(parents))`   → `offLoopF` started
  at `len(archive)`, over the stream `msizes` of offspring counts of the mutator's calls
* `algorithm.evaluate_all(offspring)` (counter += len(offspring)); `algorithm.population = population + offspring`;
  `algorithm.population_size = len(population)`                                                          → `restart`
* whether a restart happens after a step and how large the archive is then (`check`, the archive's content) is an input:
  `arch i = none` (no restart after step `i`) or `some a`.
-/
import PlatypusModel.Model.GenStep
namespace Platypus

structure RCfg where
  ratio : Nat
  minPop : Nat
  maxPop : Nat

structure RState where
  nfe : Nat       -- evaluation counter
  pos : Nat       -- calls of the variator so far
  mpos : Nat      -- calls of the restart mutator so far
  pop : Nat       -- len(algorithm.population)
  popSize : Nat   -- algorithm.population_size
  deriving DecidableEq, Repr

/-- `new_size` of `restart` for an archive of `a` members -/
def newSize (c : RCfg) (a : Nat) : Nat :=
  let raw := c.ratio * a
  if raw < c.minPop then c.minPop else if raw > c.maxPop then c.maxPop else raw

/-- `restart`: the archive (`a` members) becomes the population and is filled up with mutated archive members -/
def restart (c : RCfg) (msizes : Nat → Nat) (a : Nat) (s : RState) : RState :=
  let t := newSize c a
  let r := offLoopF msizes t t a s.mpos
  { nfe := s.nfe + (r.1 - a), pos := s.pos, mpos := r.2, pop := r.1, popSize := r.1 }

/-- the `step()` of NSGA-II / eps-NSGA-II with the *current* `population_size` -/
def rGen (sizes : Nat → Nat) (s : RState) : RState :=
  let g := genStep { style := .whileMerge, popSize := s.popSize, offSize := s.popSize } sizes { nfe := s.nfe, pos := s.pos, pop := s.pop }
  { s with nfe := g.nfe, pos := g.pos, pop := g.pop }

/-- one iteration of the run loop: `step()`, then the extension's `post_step` -/
def rStep (c : RCfg) (sizes msizes : Nat → Nat) (arch : Option Nat) (s : RState) : RState :=
  let s1 := rGen sizes s
  match arch with
  | none => s1
  | some a => restart c msizes a s1

/-- the state after the iterations whose restart decisions are listed -/
def rRun (c : RCfg) (sizes msizes : Nat → Nat) : List (Option Nat) → RState → RState
  | [], s => s
  | a :: rest, s => rRun c sizes msizes rest (rStep c sizes msizes a s)

end Platypus
