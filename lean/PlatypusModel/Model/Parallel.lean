/-
Model of platypus/evaluator.py (_chunks, the three evaluate_all shapes), platypus/mpipool.py (MPIPool.map
/ wait as a labelled transition system over FIFO channels) and the result filing of
platypus/experimenter.py.  Core Lean only.

Python → model
* `_chunks(items, n)`: consecutive blocks of `n` items, the last one shorter; `n ≤ 0` never fills a block,
  so everything ends up in one final block                                → `chunks`
* submit / apply evaluators: one future per job, results collected by iterating the futures in submission
  order; the pool completes them in an arbitrary order                    → `completeAll` + `collect`
* MPI: `isend` = append to the FIFO channel of the (sender, receiver) pair (non-overtaking); a worker's
  `recv(source=0, tag=ANY)` takes the head of its inbox; the master's `recv(source=w, tag=i)` takes the
  earliest message with tag `i` from worker `w`'s outbox; `recv(ANY_SOURCE, ANY_TAG)` takes the head of
  any non-empty outbox (scheduler's choice).  The master's sends do not block, so its send phase is part
  of the initial configuration; every later action is a `Step`, chosen by an arbitrary scheduler.
-/
namespace Platypus

/-! ### chunks and collectors -/

/-- `_chunks(items, n)`; fuel = number of items (each block of a positive size consumes ≥ 1 item) -/
def chunksAux {τ : Type} (n : Nat) : Nat → List τ → List (List τ)
  | 0, _ => []
  | _ + 1, [] => []
  | fuel + 1, x :: xs =>
    if n = 0 then [x :: xs] else (x :: xs).take n :: chunksAux n fuel ((x :: xs).drop n)

def chunks {τ : Type} (n : Int) (items : List τ) : List (List τ) :=
  if n ≤ 0 then (if items.isEmpty then [] else [items]) else chunksAux n.toNat items.length items

/-- `MapEvaluator.evaluate_all` with progress-log chunking -/
def mapEvaluate {τ ρ : Type} (run : τ → ρ) (logFrequency : Option Int) (jobs : List τ) : List ρ :=
  match logFrequency with
  | none => jobs.map run
  | some n => (chunks n jobs).flatMap (fun c => c.map run)

/-- futures completed in the order `order` (indices into `jobs`); a future is a write-once cell -/
def completeAll {τ ρ : Type} (run : τ → ρ) (jobs : List τ) (order : List Nat) : List (Option ρ) :=
  order.foldl (fun cells i =>
    match jobs[i]? with
    | some j => if cells.getD i none = none then cells.set i (some (run j)) else cells
    | none => cells) (List.replicate jobs.length none)

/-- `[f.result() for f in futures]`: `none` if some future never completed -/
def collect {ρ : Type} (cells : List (Option ρ)) : Option (List ρ) := cells.mapM id

/-! ### MPI pool -/

inductive ToWorker (τ : Type) where
  | fn                          -- the function wrapper of this `map` call
  | task (tag : Nat) (t : τ)

structure ToMaster (ρ : Type) where
  tag : Nat
  r : ρ

inductive Phase where
  | recvStatic (i : Nat)        -- static branch: waiting for the result with tag `i`
  | recvLB (k : Nat)            -- load-balanced branch: `k` results received so far
  | done
  deriving DecidableEq, Repr

structure MCfg (τ ρ : Type) where
  inbox : List (List (ToWorker τ))     -- master → worker w (index w, 0-based)
  outbox : List (List (ToMaster ρ))    -- worker w → master
  hasFn : List Bool
  phase : Phase
  results : List (Option ρ)
  dispatched : Nat

/-- scheduler choices -/
inductive Action where
  | worker (w : Nat)            -- worker w handles the head of its inbox
  | master (w : Nat)            -- the master completes its pending receive with a message from worker w
  deriving Repr

section
variable {τ ρ : Type}

/-- configuration after the master's (non-blocking) send phase -/
def mpiInit (size : Nat) (loadbalance : Bool) (tasks : List τ) : MCfg τ ρ :=
  let n := tasks.length
  let lb := loadbalance && decide (n > size)
  let idx := (List.range n).zip tasks
  { inbox := (List.range size).map fun w =>
      .fn :: (if lb then (idx.filter (fun p => p.1 == w)).map (fun p => ToWorker.task p.1 p.2)
              else (idx.filter (fun p => p.1 % size == w)).map (fun p => ToWorker.task p.1 p.2)),
    outbox := List.replicate size [],
    hasFn := List.replicate size false,
    phase := if n = 0 then .done else if lb then .recvLB 0 else .recvStatic 0,
    results := List.replicate n none,
    dispatched := if lb then size else n }

/-- remove the earliest message with the given tag -/
def takeTag (tag : Nat) : List (ToMaster ρ) → Option (ToMaster ρ × List (ToMaster ρ))
  | [] => none
  | m :: ms => if m.tag = tag then some (m, ms) else (takeTag tag ms).map fun (x, rest) => (x, m :: rest)

/-- one scheduled action; `none` = not enabled in this configuration -/
def mpiStep (f : τ → ρ) (size : Nat) (tasks : List τ) (c : MCfg τ ρ) : Action → Option (MCfg τ ρ)
  | .worker w =>
    match c.inbox[w]? with
    | some (.fn :: rest) => some { c with inbox := c.inbox.set w rest, hasFn := c.hasFn.set w true }
    | some (.task tag t :: rest) =>
      if c.hasFn.getD w false then
        some { c with inbox := c.inbox.set w rest,
                      outbox := c.outbox.set w (c.outbox.getD w [] ++ [{ tag := tag, r := f t }]) }
      else none     -- would run `_error_function`: not a behaviour of a correct pool (excluded by the invariant)
    | _ => none
  | .master w =>
    match c.phase with
    | .recvStatic i =>
      if w = i % size then
        match takeTag i (c.outbox.getD w []) with
        | some (m, rest) =>
          some { c with outbox := c.outbox.set w rest, results := c.results.set i (some m.r),
                        phase := if i + 1 = tasks.length then .done else .recvStatic (i + 1) }
        | none => none
      else none
    | .recvLB k =>
      match c.outbox.getD w [] with
      | m :: rest =>
        let c1 := { c with outbox := c.outbox.set w rest, results := c.results.set m.tag (some m.r) }
        let c2 := match tasks[c.dispatched]? with
          | some t => { c1 with inbox := c1.inbox.set w (c1.inbox.getD w [] ++ [ToWorker.task c.dispatched t]),
                                dispatched := c.dispatched + 1 }
          | none => c1
        some { c2 with phase := if k + 1 = tasks.length then .done else .recvLB (k + 1) }
      | [] => none
    | .done => none

/-- run a whole schedule -/
def mpiRun (f : τ → ρ) (size : Nat) (tasks : List τ) : MCfg τ ρ → List Action → Option (MCfg τ ρ)
  | c, [] => some c
  | c, a :: as => (mpiStep f size tasks c a).bind fun c' => mpiRun f size tasks c' as

/-- configurations reachable under some scheduler -/
inductive Reachable (f : τ → ρ) (size : Nat) (lb : Bool) (tasks : List τ) : MCfg τ ρ → Prop where
  | init : Reachable f size lb tasks (mpiInit size lb tasks)
  | step (c c' : MCfg τ ρ) (a : Action) : Reachable f size lb tasks c → mpiStep f size tasks c a = some c' →
      Reachable f size lb tasks c'
end

/-! ### experiment result filing -/

structure JobResult (κ : Type) where
  algorithm : String
  problem : String
  result : κ

/-- `experiment`: results[algorithm][problem].append(result) in the order the jobs come back -/
def fileResults {κ : Type} (jobs : List (JobResult κ)) : List (String × List (String × List κ)) :=
  jobs.foldl (fun acc j =>
    let acc := if acc.any (·.1 == j.algorithm) then acc else acc ++ [(j.algorithm, [])]
    acc.map fun (a, ps) =>
      if a == j.algorithm then
        let ps := if ps.any (·.1 == j.problem) then ps else ps ++ [(j.problem, [])]
        (a, ps.map fun (p, rs) => if p == j.problem then (p, rs ++ [j.result]) else (p, rs))
      else (a, ps)) []

end Platypus
