import PlatypusModel.Model.Constraint
import PlatypusModel.Model.PyFloat
import PlatypusModel.Model.Gray
/-
Abstract machine for the whole-algorithm properties C01 / C07 (platypus/core.py: Problem.__call__,
Solution, Algorithm.evaluate_all; types.py: validity of decoded variables).  Core Lean only.

The user's problem is a *world*: declared variable types and a deterministic function (here the family
used by the harness: integer-weighted sums of the flattened decoded variables, accumulated left to right
in doubles) plus constraint declarations.  `problemCall` is the model of `Problem.__call__`
(decode → function → constraint violation → feasibility → evaluated).

`accept` replays the observable trace of a real run (batches of `evaluate_all` with the state of every
member before and after, and the collections exposed after every step) and accepts it only if it is a
trace the machine can produce:
  * a member that was already evaluated is returned untouched and is not evaluated again,
  * an unevaluated member comes back evaluated, with the variables it had, and with exactly the
    record `problemCall` yields for those variables (whichever evaluator produced it),
  * what is submitted to the user's function is valid for the declared types,
  * every exposed solution is one whose last evaluation is known and it still carries exactly that
    record (or it is an untouched deep copy of such a solution).
-/
namespace Platypus

inductive VType where
  | real (lo hi : Float)
  | int (lo hi : Int)
  | binary (n : Nat)
  | perm (n : Nat)
  | subset (n k : Nat)

/-- a decoded decision variable; doubles are carried as their 64-bit patterns so that equality of
observations is decidable, exact equality -/
inductive Val where
  | real (bits : Nat)
  | int (v : Int)
  | bits (b : List Bool)
  | elems (e : List Nat)
  | bad            -- could not be decoded / wrong shape
  deriving DecidableEq

def fOfBits (n : Nat) : Float := Float.ofBits n.toUInt64

/-- C07: is the decoded value valid for its declared type? -/
def validVal : VType → Val → Bool
  | .real lo hi, .real x => lo <= fOfBits x && fOfBits x <= hi
  | .int lo hi, .int v => decide (lo ≤ v) && decide (v ≤ hi)
  | .binary n, .bits b => b.length == n
  | .perm n, .elems e => e.length == n && e.all (· < n) && e.eraseDups.length == e.length
  | .subset n k, .elems e => e.length == k && e.all (· < n) && e.eraseDups.length == e.length
  | _, _ => false

def validVals (types : List VType) (vals : List Val) : Bool :=
  types.length == vals.length && (types.zip vals).all (fun p => validVal p.1 p.2)

/-- what evaluation stores on a solution (doubles as bit patterns) -/
structure Record where
  objs : List Nat
  cons : List Nat
  cv : Nat
  feasible : Bool
  deriving DecidableEq

/-- the user's problem: declared types and the (deterministic, pure) effect of `Problem.__call__` on
decoded variables -/
structure World where
  types : List VType
  call : List Val → Record

/-- what the trace shows of a solution -/
structure Snap where
  id : Nat
  vals : List Val
  record : Record
  hasFeasible : Bool      -- the `feasible` attribute exists
  evaluated : Bool
  deriving DecidableEq

inductive Event where
  | batch (before after : List Snap)
  | step (exposed : List Snap)

/-- why a trace is not one of the machine's -/
inductive Reject where
  | batchShape | unknownEvaluated | touchedEvaluated | notEvaluated | variablesChanged | wrongRecord | invalidArgument
  | exposedUnknown | exposedUnevaluated | exposedStale
  deriving Repr, DecidableEq

abbrev Known := List (Nat × Snap)

def Known.get (k : Known) (i : Nat) : Option Snap := (k.find? (fun p => p.1 == i)).map (·.2)
def Known.set (k : Known) (s : Snap) : Known := (s.id, s) :: k.filter (fun p => p.1 != s.id)

/-- `b` carries the same data as `a` (a deep copy of an evaluated solution is a new object with the
same variables and the same stored record) -/
def sameData (a b : Snap) : Bool :=
  decide (a.vals = b.vals ∧ a.record = b.record ∧ a.hasFeasible = b.hasFeasible ∧ a.evaluated = b.evaluated)

def Known.hasCopyOf (k : Known) (s : Snap) : Bool := k.any (fun p => sameData p.2 s)

/-- a single member of a batch: `b` before, `a` after `evaluate_all` -/
def checkMember (w : World) (k : Known) (b a : Snap) : Except Reject Known :=
  if b.id ≠ a.id then .error .batchShape
  else if b.evaluated then
    (match k.get b.id with
      | none => if b = a ∧ k.hasCopyOf b = true then .ok (k.set a) else .error .unknownEvaluated
      | some r => if r = b ∧ b = a then .ok k else .error .touchedEvaluated)
  else if !a.evaluated then .error .notEvaluated
  else if !validVals w.types b.vals then .error .invalidArgument
  else if b.vals ≠ a.vals then .error .variablesChanged
  else if a.record ≠ w.call a.vals ∨ a.hasFeasible = false then .error .wrongRecord
  else .ok (k.set a)

def checkBatch (w : World) : List Snap → List Snap → Known → Except Reject Known
  | [], [], k => .ok k
  | b :: bs, a :: as, k =>
    match checkMember w k b a with
    | .error e => .error e
    | .ok k' => checkBatch w bs as k'
  | _, _, _ => .error .batchShape

def checkExposed (k : Known) : List Snap → Except Reject Unit
  | [] => .ok ()
  | s :: rest =>
    match k.get s.id with
    | none => if s.evaluated = true ∧ k.hasCopyOf s = true then checkExposed k rest else .error .exposedUnknown
    | some r =>
      if !s.evaluated then .error .exposedUnevaluated
      else if r ≠ s then .error .exposedStale
      else checkExposed k rest

def acceptFrom (w : World) : List Event → Known → Except Reject Known
  | [], k => .ok k
  | .batch b a :: rest, k =>
    match checkBatch w b a k with
    | .error e => .error e
    | .ok k' => acceptFrom w rest k'
  | .step ex :: rest, k =>
    match checkExposed k ex with
    | .error e => .error e
    | .ok _ => acceptFrom w rest k

def accept (w : World) (events : List Event) : Except Reject Known := acceptFrom w events []

/-- the machine's own `evaluate_all`: what any conforming evaluator (in place or on copies, in any
completion order) leaves on the batch -/
def evaluateAll (w : World) (batch : List Snap) : List Snap :=
  batch.map fun s => if s.evaluated then s else
    { s with record := w.call s.vals, hasFeasible := true, evaluated := true }

/-! ### the harness's family of worlds (doubles) -/

def flattenVal : Val → List Float
  | .real x => [fOfBits x]
  | .int v => [Float.ofInt v]
  | .bits b => b.map (fun t => if t then 1.0 else 0.0)
  | .elems e => (e.zipIdx).map (fun (x, i) => Float.ofNat x * Float.ofNat (i + 1))
  | .bad => []

def wsum (row : List Int) (z : List Float) : Float :=
  (row.zip z).foldl (fun acc p => acc + Float.ofInt p.1 * p.2) 0.0

/-- sum of squared distances to integer centres (a convex trade-off surface between objectives) -/
def qsum (row : List Int) (z : List Float) : Float :=
  (row.zip z).foldl (fun acc p => acc + (p.2 - Float.ofInt p.1) * (p.2 - Float.ofInt p.1)) 0.0

/-- one constraint's `abs(f(x))` with Python's int/float distinction (literal `0` / `1` are ints) -/
def violItem (delta : Float) (c : Op × Float) (x : Float) : PyItem :=
  match c.1 with
  | .eq => .flt (x - c.2).abs
  | .leq => if x <= c.2 then .int 0 else .flt (x - c.2).abs
  | .geq => if x >= c.2 then .int 0 else .flt (x - c.2).abs
  | .neq => if x != c.2 then .int 0 else .int 1
  | .lt => if x < c.2 then .int 0 else .flt ((x - c.2).abs + delta).abs
  | .gt => if x > c.2 then .int 0 else .flt ((x - c.2).abs + delta).abs

/-- model of `Problem.__call__` for a weighted-sum problem: decode → function → violation → feasible -/
def weightedCall (quad : Bool) (w : List (List Int)) (cw : List (List Int × Float)) (cons : List (Op × Float)) (delta : Float)
    (vals : List Val) : Record :=
  let z := vals.flatMap flattenVal
  let objs := w.map (fun row => if quad then qsum row z else wsum row z)
  let cvals := cw.map (fun r => wsum r.1 z - r.2)
  let cv := (pySum ((cons.zip cvals).map (fun p => violItem delta p.1 p.2))).toFloat
  let cv := if cv == 0.0 then 0.0 else cv
  { objs := objs.map (·.toBits.toNat), cons := cvals.map (·.toBits.toNat), cv := cv.toBits.toNat, feasible := cv == 0.0 }

end Platypus
