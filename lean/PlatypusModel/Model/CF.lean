import PlatypusModel.Model.UF
/-
Reference implementation of the constrained CEC 2009 test instances CF1–CF10 (same report as `Model/UF.lean`,
section 3), written from the published definitions, **not** from platypus/problems.py.  Core Lean only.

Each function returns the objective values followed by the constraint values (every constraint is `≥ 0`).
-/
namespace Platypus

section
variable {α : Type} [Add α] [Sub α] [Mul α] [Div α] [Neg α] [OfNat α 0] [OfNat α 1]

/-- `Σ_{j∈J} term j` -/
def sumOver (J : List Nat) (term : Nat → α) : α := sumL (J.map term)

/-- `t / (1 + e^{4|t|})` -/
def squash (t : Trig α) (o : WOps α) (v : α) : α := v / (1 + t.exp (t.ofNat 4 * o.abs v))

/-- `sgn(v) √|v|` -/
def sgnSqrt (t : Trig α) (o : WOps α) (v : α) : α :=
  (if o.le 0 v then 1 else -1) * t.sqrt (o.abs v)

def cf1 (t : Trig α) (o : WOps α) (x : List α) : List α :=
  let n := x.length
  let x1 := xat x 1
  let y := fun j => xat x j - t.pow x1 ((1 / (1 + 1)) * (1 + t.ofNat 3 * (t.ofNat j - t.ofNat 2) / (t.ofNat n - t.ofNat 2)))
  let f1 := x1 + meanTwice t (idxSet 2 n 2 1) fun j => y j * y j
  let f2 := 1 - x1 + meanTwice t (idxSet 2 n 2 0) fun j => y j * y j
  let N := t.ofNat 10; let a : α := 1
  [f1, f2, f1 + f2 - a * o.abs (t.sin (N * t.pi * (f1 - f2 + 1))) - 1]

def cf2 (t : Trig α) (o : WOps α) (x : List α) : List α :=
  let n := x.length
  let x1 := xat x 1
  let arg := fun j => t.ofNat 6 * t.pi * x1 + t.ofNat j * t.pi / t.ofNat n
  let f1 := x1 + meanTwice t (idxSet 2 n 2 1) fun j => (xat x j - t.sin (arg j)) * (xat x j - t.sin (arg j))
  let f2 := 1 - t.sqrt x1 + meanTwice t (idxSet 2 n 2 0) fun j => (xat x j - t.cos (arg j)) * (xat x j - t.cos (arg j))
  let N := t.ofNat 2; let a : α := 1
  let v := f2 + t.sqrt f1 - a * t.sin (N * t.pi * (t.sqrt f1 - f2 + 1)) - 1
  [f1, f2, squash t o v]

def cf3 (t : Trig α) (x : List α) : List α :=
  let n := x.length
  let x1 := xat x 1
  let y := fun j => xat x j - phase t x j
  let J1 := idxSet 2 n 2 1; let J2 := idxSet 2 n 2 0
  let f1 := x1 + t.ofNat 2 / t.ofNat J1.length * rastLike t J1 y
  let f2 := 1 - x1 * x1 + t.ofNat 2 / t.ofNat J2.length * rastLike t J2 y
  let N := t.ofNat 2; let a : α := 1
  [f1, f2, f2 + f1 * f1 - a * t.sin (N * t.pi * (f1 * f1 - f2 + 1)) - 1]

/-- `h₂` of CF4 / CF5: `|t|` below `3/2 (1 - √2/2)`, `0.125 + (t - 1)²` from there on -/
def h2 (t : Trig α) (o : WOps α) (v : α) : α :=
  let thr := t.ofNat 3 / t.ofNat 2 * (1 - t.sqrt (t.ofNat 2) / t.ofNat 2)
  if o.le thr v then t.ofNat 125 / t.ofNat 1000 + (v - 1) * (v - 1) else o.abs v

def cf4 (t : Trig α) (o : WOps α) (x : List α) : List α :=
  let n := x.length
  let x1 := xat x 1
  let y := fun j => xat x j - phase t x j
  let h := fun j => if j = 2 then h2 t o (y j) else y j * y j
  let f1 := x1 + sumOver (idxSet 2 n 2 1) h
  let f2 := 1 - x1 + sumOver (idxSet 2 n 2 0) h
  let v := xat x 2 - phase t x 2 - (1 / (1 + 1)) * x1 + t.ofNat 25 / t.ofNat 100
  [f1, f2, squash t o v]

def cf5 (t : Trig α) (o : WOps α) (x : List α) : List α :=
  let n := x.length
  let x1 := xat x 1
  let amp := t.ofNat 8 / t.ofNat 10 * x1
  let arg := fun j => t.ofNat 6 * t.pi * x1 + t.ofNat j * t.pi / t.ofNat n
  let y := fun j => if j % 2 = 1 then xat x j - amp * t.cos (arg j) else xat x j - amp * t.sin (arg j)
  let h := fun j => if j = 2 then h2 t o (y j) else t.ofNat 2 * y j * y j - t.cos (t.ofNat 4 * t.pi * y j) + 1
  let f1 := x1 + sumOver (idxSet 2 n 2 1) h
  let f2 := 1 - x1 + sumOver (idxSet 2 n 2 0) h
  [f1, f2, xat x 2 - amp * t.sin (arg 2) - (1 / (1 + 1)) * x1 + t.ofNat 25 / t.ofNat 100]

def cf6 (t : Trig α) (o : WOps α) (x : List α) : List α :=
  let n := x.length
  let x1 := xat x 1
  let amp := t.ofNat 8 / t.ofNat 10 * x1
  let arg := fun j => t.ofNat 6 * t.pi * x1 + t.ofNat j * t.pi / t.ofNat n
  let y := fun j => if j % 2 = 1 then xat x j - amp * t.cos (arg j) else xat x j - amp * t.sin (arg j)
  let f1 := x1 + sumOver (idxSet 2 n 2 1) fun j => y j * y j
  let f2 := (1 - x1) * (1 - x1) + sumOver (idxSet 2 n 2 0) fun j => y j * y j
  let half : α := 1 / (1 + 1)
  let c1 := xat x 2 - amp * t.sin (arg 2) - sgnSqrt t o (half * (1 - x1) - (1 - x1) * (1 - x1))
  let c2 := xat x 4 - amp * t.sin (arg 4) - sgnSqrt t o (t.ofNat 25 / t.ofNat 100 * t.sqrt (1 - x1) - half * (1 - x1))
  [f1, f2, c1, c2]

def cf7 (t : Trig α) (o : WOps α) (x : List α) : List α :=
  let n := x.length
  let x1 := xat x 1
  let arg := fun j => t.ofNat 6 * t.pi * x1 + t.ofNat j * t.pi / t.ofNat n
  let y := fun j => if j % 2 = 1 then xat x j - t.cos (arg j) else xat x j - t.sin (arg j)
  let h := fun j => if j = 2 ∨ j = 4 then y j * y j else t.ofNat 2 * y j * y j - t.cos (t.ofNat 4 * t.pi * y j) + 1
  let f1 := x1 + sumOver (idxSet 2 n 2 1) h
  let f2 := (1 - x1) * (1 - x1) + sumOver (idxSet 2 n 2 0) h
  let half : α := 1 / (1 + 1)
  let c1 := xat x 2 - t.sin (arg 2) - sgnSqrt t o (half * (1 - x1) - (1 - x1) * (1 - x1))
  let c2 := xat x 4 - t.sin (arg 4) - sgnSqrt t o (t.ofNat 25 / t.ofNat 100 * t.sqrt (1 - x1) - half * (1 - x1))
  [f1, f2, c1, c2]

/-- the constraint shared by CF8–CF10 with `q = (f₁² ∓ f₂²)/(1 - f₃²)` -/
def cf8to10 (t : Trig α) (o : WOps α) (f : List α) (N a : α) (useAbs : Bool) : α :=
  let f1 := f.getD 0 0; let f2 := f.getD 1 0; let f3 := f.getD 2 0
  let s := t.sin (N * t.pi * ((f1 * f1 - f2 * f2) / (1 - f3 * f3) + 1))
  (f1 * f1 + f2 * f2) / (1 - f3 * f3) - a * (if useAbs then o.abs s else s) - 1

def cf8 (t : Trig α) (o : WOps α) (x : List α) : List α :=
  let f := uf8 t x
  f ++ [cf8to10 t o f (t.ofNat 2) (t.ofNat 4) true]

def cf9 (t : Trig α) (o : WOps α) (x : List α) : List α :=
  let f := uf8 t x
  f ++ [cf8to10 t o f (t.ofNat 2) (t.ofNat 3) false]

def cf10 (t : Trig α) (o : WOps α) (x : List α) : List α :=
  let f := uf10 t x
  f ++ [cf8to10 t o f (t.ofNat 2) 1 false]

end
end Platypus
