import PlatypusModel.Model.Survival
import PlatypusModel.Model.PyFloat
/-
Model of SPEA2's environmental selection as platypus/algorithms.py and platypus/distance.py compute it, on
doubles: `_assign_fitness` (strength / raw fitness + density from the k-th entry of each row of the distance
matrix), `DistanceMatrix` (rows sorted by distance, stable), `find_most_crowded` (smallest nearest-neighbour
distance, ties broken lexicographically along the sorted rows, first index wins), `remove_point`, `_truncate`.
Core Lean only.

Python → model
* `euclidean_dist(x, y) = math.sqrt(sum([math.pow(x[i]-y[i], 2.0) ...]))`  → `dmDist` (`pySumF`: CPython's sum)
* `distances[i] = sorted([(j, d(i, j)) for j != i], key = d)`              → `dmRows` (stable merge sort)
* `kth_distance(i, k) = distances[i][k][1]` (IndexError when the row is too short) → `Option`
* fitness: ints accumulated into a float, then `+= 1.0 / (kth + 2.0)`       → `spea2Fitness`
* `_truncate`                                                               → `spea2TruncateF`
-/
namespace Platypus

def dmDist (x y : List Float) : Float :=
  Float.sqrt (pySumF (List.zipWith (fun a b => Float.pow (a - b) 2.0) x y))

/-- row `i`: the other indices with their distances, sorted by distance (stable) -/
def dmRows (pts : List (List Float)) : List (List (Nat × Float)) :=
  pts.zipIdx.map fun (x, i) =>
    ((pts.zipIdx.filter fun (_, j) => j != i).map fun (y, j) => (j, dmDist x y)).mergeSort fun a b => a.2 ≤ b.2

/-- the lexicographic tie-break of `find_most_crowded`: does row `a` win against the current minimum row `b`? -/
def rowWins : List (Nat × Float) → List (Nat × Float) → Bool
  | a :: as, b :: bs => if a.2 < b.2 then true else if b.2 < a.2 then false else rowWins as bs
  | _, _ => false

/-- `find_most_crowded`: `none` is Python's -1 (no row / all nearest distances are +inf or NaN) -/
def findMostCrowded (rows : List (List (Nat × Float))) : Option Nat :=
  let step := fun (st : Float × Option Nat) (ri : List (Nat × Float) × Nat) =>
    match ri.1 with
    | [] => st          -- Python would raise IndexError on distances_i[0]; unreachable while > size >= 1 rows remain
    | d0 :: _ =>
      if d0.2 < st.1 then (d0.2, some ri.2)
      else if d0.2 == st.1 then
        match st.2 with
        | some m => if rowWins ri.1 (rows.getD m []) then (st.1, some ri.2) else st
        | none => st
      else st
  (rows.zipIdx.foldl step ((1.0 : Float) / 0.0, none)).2

/-- `remove_point(index)` -/
def removePoint (rows : List (List (Nat × Float))) (index : Nat) : List (List (Nat × Float)) :=
  (rows.eraseIdx index).map fun row =>
    (row.filter fun e => e.1 != index).map fun e => (if e.1 < index then e.1 else e.1 - 1, e.2)

/-- `_assign_fitness`: `none` when a row has no k-th entry (IndexError) -/
def spea2Fitness (c : Bool) (dirs : List Bool) (k : Nat) (sols : List (Sol Float)) : Option (List Float) :=
  let cmp := paretoCompare c dirs
  let n := sols.length
  let strength := sols.map fun x => (sols.filter fun y => cmp x y < 0).length
  let raw := sols.map fun x => ((sols.zip strength).filter fun (y, _) => cmp y x < 0).foldl (fun acc p => acc + p.2) 0
  let rows := dmRows (sols.map (·.objs))
  if n = 0 then some []
  else
    (List.range n).mapM fun i =>
      match (rows.getD i []).drop k with
      | e :: _ => some (Float.ofNat (raw.getD i 0) + 1.0 / (e.2 + 2.0))
      | [] => none

def reduceLoop : Nat → List (Sol Float) → List (List (Nat × Float)) → Nat → List (Sol Float)
  | 0, l, _, _ => l
  | fuel + 1, l, rows, size =>
    if l.length > size then
      match findMostCrowded rows with
      | some m => reduceLoop fuel (l.eraseIdx m) (removePoint rows m) size
      | none => reduceLoop fuel (l.eraseIdx (l.length - 1)) (removePoint rows (l.length - 1)) size   -- `del survivors[-1]`
    else l

/-- `_truncate(solutions, size)` given the fitness values -/
def spea2TruncateF (sols : List (Sol Float)) (fit : List Float) (size : Nat) : List (Sol Float) :=
  let tagged := sols.zip fit
  let survivors := (tagged.filter fun p => p.2 < 1.0).map (·.1)
  if survivors.length < size then
    let remaining := (tagged.filter fun p => p.2 >= 1.0).mergeSort fun a b => a.2 ≤ b.2
    survivors ++ (remaining.take (size - survivors.length)).map (·.1)
  else
    reduceLoop survivors.length survivors (dmRows (survivors.map (·.objs))) size

/-- SPEA2 survival: ids of the next population; `merged = offspring ++ population`; `none` = the run raises -/
def spea2Survival (c : Bool) (dirs : List Bool) (k : Nat) (merged : List (Sol Float)) (N : Nat) : Option (List Nat) :=
  (spea2Fitness c dirs k merged).map fun fit => (spea2TruncateF merged fit N).map (·.id)

end Platypus
