/-
Model of platypus/core.py: ParetoDominance.compare, Archive.add / extend / += , nondominated.
Core Lean only.

Python → model
* a `Solution` as far as dominance can see it: identity (`id`, the Python object identity numbered in
  order of first appearance), `objectives` (list), `constraint_violation` (`cv`).
* `problem.nconstrs > 0`            → `constrained : Bool`
* `problem.directions[i] == MAXIMIZE` → `dirs : List Bool` (`true` = maximise)
* the `for i in range(nobjs)` loop with the `dominate1/dominate2` flags and early `return 0`
                                     → `scan` (structural recursion over the three lists in lock-step)
* `Archive.add`: flags = [compare(new, m) for m in contents]; reject if any flag > 0, else keep the
  members whose flag is 0 (`itertools.compress`) and append the newcomer → `archiveAdd`
* `extend`, `append`, `__iadd__`, `nondominated` are folds of `add`     → `archiveOf`
-/
namespace Platypus

structure Sol (α : Type) where
  id : Nat
  objs : List α
  cv : α
  deriving Repr

section
variable {α : Type} [LT α] [DecidableLT α] [BEq α] [Neg α] [OfNat α 0]

/-- objective value taken in the declared direction (`o = -o` for MAXIMIZE) -/
def adj (isMax : Bool) (x : α) : α := if isMax then -x else x

/-- the coordinate loop of `ParetoDominance.compare` with its two flags -/
def scan : List Bool → List α → List α → Bool → Bool → Int
  | d :: ds, x :: xs, y :: ys, d1, d2 =>
    if adj d x < adj d y then (if d2 then 0 else scan ds xs ys true d2)
    else if adj d y < adj d x then (if d1 then 0 else scan ds xs ys d1 true)
    else scan ds xs ys d1 d2
  | _, _, _, d1, d2 => if d1 = d2 then 0 else if d1 then -1 else 1

/-- the constraint-violation block; `none` = fall through to the objectives -/
def cvBlock (constrained : Bool) (c1 c2 : α) : Option Int :=
  if constrained && c1 != c2 then
    if c1 == 0 then some (-1)
    else if c2 == 0 then some 1
    else if c1 < c2 then some (-1)
    else if c2 < c1 then some 1
    else none
  else none

/-- `ParetoDominance.compare(solution1, solution2)` -/
def paretoCompare (constrained : Bool) (dirs : List Bool) (a b : Sol α) : Int :=
  match cvBlock constrained a.cv b.cv with
  | some r => r
  | none => scan dirs a.objs b.objs false false
end

section
variable {σ : Type}

/-- `Archive.add(solution)`: (new contents, accepted?) for any comparator -/
def archiveAdd (cmp : σ → σ → Int) (arch : List σ) (s : σ) : List σ × Bool :=
  if arch.any (fun m => cmp s m > 0) then (arch, false)
  else (arch.filter (fun m => cmp s m = 0) ++ [s], true)

/-- contents after offering `xs` one by one to an empty archive (`extend`, `+=`, `nondominated`) -/
def archiveOf (cmp : σ → σ → Int) (xs : List σ) : List σ :=
  xs.foldl (fun a s => (archiveAdd cmp a s).1) []

/-- contents after offering `xs` to an existing archive -/
def archiveExtend (cmp : σ → σ → Int) (arch : List σ) (xs : List σ) : List σ :=
  xs.foldl (fun a s => (archiveAdd cmp a s).1) arch
end

/-! ### Exact extended rationals: every non-NaN double is one of these -/

inductive ERat where
  | ninf
  | fin (q : Rat)
  | pinf
  deriving DecidableEq, Repr

namespace ERat
def blt : ERat → ERat → Bool
  | ninf, ninf => false
  | ninf, _ => true
  | fin _, ninf => false
  | fin a, fin b => decide (a < b)
  | fin _, pinf => true
  | pinf, _ => false

instance : LT ERat := ⟨fun a b => blt a b = true⟩
instance : DecidableLT ERat := fun a b => inferInstanceAs (Decidable (blt a b = true))
instance : Neg ERat := ⟨fun | ninf => pinf | fin q => fin (-q) | pinf => ninf⟩
instance : OfNat ERat 0 := ⟨fin 0⟩
end ERat

end Platypus
