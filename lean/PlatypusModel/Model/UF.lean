import PlatypusModel.Model.WFG
/-
Reference implementation of the unconstrained CEC 2009 test instances UF1–UF10, written from the published
definitions (Zhang, Zhou, Zhao, Suganthan, Liu, Tiwari: "Multiobjective optimization test instances for the
CEC 2009 special session and competition", TR CES-487, 2008, section 2), **not** from platypus/problems.py.
Core Lean only.

Conventions of the report: `n` decision variables `x₁ … xₙ` (1-based; lists here are 0-based, `x.getD (j-1)`),
`J₁` = odd `j`, `J₂` = even `j` with `2 ≤ j ≤ n` for two objectives; for three objectives `J₁, J₂, J₃` are the
`j` with `3 ≤ j ≤ n` and `j - 1`, `j - 2`, `j` a multiple of 3.
-/
namespace Platypus

section
variable {α : Type} [Add α] [Sub α] [Mul α] [Div α] [Neg α] [OfNat α 0] [OfNat α 1]

/-- the index sets: `j` from `lo` to `n` with `j % m = r` -/
def idxSet (lo n m r : Nat) : List Nat := ((List.range (n + 1)).filter fun j => lo ≤ j ∧ j % m = r)

/-- `(2/|J|) Σ_{j∈J} term j` -/
def meanTwice (t : Trig α) (J : List Nat) (term : Nat → α) : α :=
  t.ofNat 2 * sumL (J.map term) / t.ofNat J.length

/-- `x_j` (1-based) -/
def xat (x : List α) (j : Nat) : α := x.getD (j - 1) 0

/-- `sin(6πx₁ + jπ/n)` -/
def phase (t : Trig α) (x : List α) (j : Nat) : α :=
  t.sin (t.ofNat 6 * t.pi * xat x 1 + t.ofNat j * t.pi / t.ofNat x.length)

def uf1 (t : Trig α) (x : List α) : List α :=
  let n := x.length
  let y := fun j => xat x j - phase t x j
  [xat x 1 + meanTwice t (idxSet 2 n 2 1) fun j => y j * y j,
   1 - t.sqrt (xat x 1) + meanTwice t (idxSet 2 n 2 0) fun j => y j * y j]

def uf2 (t : Trig α) (x : List α) : List α :=
  let n := x.length
  let x1 := xat x 1
  let amp := fun j => (t.ofNat 3 / t.ofNat 10) * x1 * x1 * t.cos (t.ofNat 24 * t.pi * x1 + t.ofNat (4 * j) * t.pi / t.ofNat n)
                      + (t.ofNat 6 / t.ofNat 10) * x1
  let arg := fun j => t.ofNat 6 * t.pi * x1 + t.ofNat j * t.pi / t.ofNat n
  let y1 := fun j => xat x j - amp j * t.cos (arg j)
  let y2 := fun j => xat x j - amp j * t.sin (arg j)
  [x1 + meanTwice t (idxSet 2 n 2 1) fun j => y1 j * y1 j,
   1 - t.sqrt x1 + meanTwice t (idxSet 2 n 2 0) fun j => y2 j * y2 j]

/-- `4 Σ y² - 2 Π cos(20 y π / √j) + 2` over an index set -/
def rastLike (t : Trig α) (J : List Nat) (y : Nat → α) : α :=
  t.ofNat 4 * sumL (J.map fun j => y j * y j)
    - t.ofNat 2 * prodL (J.map fun j => t.cos (t.ofNat 20 * y j * t.pi / t.sqrt (t.ofNat j))) + t.ofNat 2

def uf3 (t : Trig α) (x : List α) : List α :=
  let n := x.length
  let x1 := xat x 1
  let y := fun j => xat x j - t.pow x1 ((1 / (1 + 1)) * (1 + t.ofNat 3 * (t.ofNat j - t.ofNat 2) / (t.ofNat n - t.ofNat 2)))
  let J1 := idxSet 2 n 2 1; let J2 := idxSet 2 n 2 0
  [x1 + t.ofNat 2 / t.ofNat J1.length * rastLike t J1 y,
   1 - t.sqrt x1 + t.ofNat 2 / t.ofNat J2.length * rastLike t J2 y]

def uf4 (t : Trig α) (o : WOps α) (x : List α) : List α :=
  let n := x.length
  let x1 := xat x 1
  let h := fun j => let a := o.abs (xat x j - phase t x j); a / (1 + t.exp (t.ofNat 2 * a))
  [x1 + meanTwice t (idxSet 2 n 2 1) h,
   1 - x1 * x1 + meanTwice t (idxSet 2 n 2 0) h]

def uf5 (t : Trig α) (o : WOps α) (x : List α) : List α :=
  let n := x.length
  let x1 := xat x 1
  let N := t.ofNat 10; let e := t.ofNat 1 / t.ofNat 10
  let h := fun j => let y := xat x j - phase t x j; t.ofNat 2 * y * y - t.cos (t.ofNat 4 * t.pi * y) + 1
  let bump := (1 / (t.ofNat 2 * N) + e) * o.abs (t.sin (t.ofNat 2 * N * t.pi * x1))
  [x1 + bump + meanTwice t (idxSet 2 n 2 1) h,
   1 - x1 + bump + meanTwice t (idxSet 2 n 2 0) h]

def uf6 (t : Trig α) (o : WOps α) (x : List α) : List α :=
  let n := x.length
  let x1 := xat x 1
  let N := t.ofNat 2; let e := t.ofNat 1 / t.ofNat 10
  let y := fun j => xat x j - phase t x j
  let bump := o.max 0 (t.ofNat 2 * (1 / (t.ofNat 2 * N) + e) * t.sin (t.ofNat 2 * N * t.pi * x1))
  let J1 := idxSet 2 n 2 1; let J2 := idxSet 2 n 2 0
  [x1 + bump + t.ofNat 2 / t.ofNat J1.length * rastLike t J1 y,
   1 - x1 + bump + t.ofNat 2 / t.ofNat J2.length * rastLike t J2 y]

def uf7 (t : Trig α) (x : List α) : List α :=
  let n := x.length
  let r := t.pow (xat x 1) (t.ofNat 1 / t.ofNat 5)
  let y := fun j => xat x j - phase t x j
  [r + meanTwice t (idxSet 2 n 2 1) fun j => y j * y j,
   1 - r + meanTwice t (idxSet 2 n 2 0) fun j => y j * y j]

/-- `x_j - 2 x₂ sin(2πx₁ + jπ/n)` of the three-objective instances -/
def y3 (t : Trig α) (x : List α) (j : Nat) : α :=
  xat x j - t.ofNat 2 * xat x 2 * t.sin (t.ofNat 2 * t.pi * xat x 1 + t.ofNat j * t.pi / t.ofNat x.length)

def uf8 (t : Trig α) (x : List α) : List α :=
  let n := x.length
  let half : α := 1 / (1 + 1)
  let sq := fun j => y3 t x j * y3 t x j
  [t.cos (half * xat x 1 * t.pi) * t.cos (half * xat x 2 * t.pi) + meanTwice t (idxSet 3 n 3 1) sq,
   t.cos (half * xat x 1 * t.pi) * t.sin (half * xat x 2 * t.pi) + meanTwice t (idxSet 3 n 3 2) sq,
   t.sin (half * xat x 1 * t.pi) + meanTwice t (idxSet 3 n 3 0) sq]

def uf9 (t : Trig α) (o : WOps α) (x : List α) : List α :=
  let n := x.length
  let half : α := 1 / (1 + 1)
  let x1 := xat x 1; let x2 := xat x 2
  let e := t.ofNat 1 / t.ofNat 10
  let sq := fun j => y3 t x j * y3 t x j
  let m := o.max 0 ((1 + e) * (1 - t.ofNat 4 * (t.ofNat 2 * x1 - 1) * (t.ofNat 2 * x1 - 1)))
  [half * (m + t.ofNat 2 * x1) * x2 + meanTwice t (idxSet 3 n 3 1) sq,
   half * (m - t.ofNat 2 * x1 + t.ofNat 2) * x2 + meanTwice t (idxSet 3 n 3 2) sq,
   1 - x2 + meanTwice t (idxSet 3 n 3 0) sq]

def uf10 (t : Trig α) (x : List α) : List α :=
  let n := x.length
  let half : α := 1 / (1 + 1)
  let h := fun j => let y := y3 t x j; t.ofNat 4 * y * y - t.cos (t.ofNat 8 * t.pi * y) + 1
  [t.cos (half * xat x 1 * t.pi) * t.cos (half * xat x 2 * t.pi) + meanTwice t (idxSet 3 n 3 1) h,
   t.cos (half * xat x 1 * t.pi) * t.sin (half * xat x 2 * t.pi) + meanTwice t (idxSet 3 n 3 2) h,
   t.sin (half * xat x 1 * t.pi) + meanTwice t (idxSet 3 n 3 0) h]

end
end Platypus
