import PlatypusModel.Model.Dominance
/-
Model of platypus/core.py: EpsilonDominance.same_box / compare and EpsilonBoxArchive.add.
Core Lean only.

Python → model
* `epsilon = float(self.epsilons[i if i < len(self.epsilons) else -1])` → the list of epsilons is walked
  in lock-step with the objectives and its last element is reused (`epsNext`)
* `math.floor(o / epsilon)` → parameter `fl` applied to `o / ε` (kept in the scalar type: the Python
  int is only compared and multiplied back by ε; for a finite double it converts back exactly);
  instances: `Float.floor`, `fun q => (q.floor : Rat)`
* `math.pow(d, 2.0)` → parameter `sq`; instances `Float.pow · 2.0`, `fun q => q * q`
* the three loops of `compare` (flags with early `return 0`; if no flag is set, the two squared
  distances to the box corner; `dist1 < dist2 → -1 else 1`) → `boxScan` + `cornerDist`
* repaired code: in the same-box branch `ParetoDominance().compare` decides first → `epsCompareP`;
  `epsCompare` is the comparator as originally pinned
* `EpsilonBoxArchive.add`: as `Archive.add`, plus `improvements += 1` when accepted and
  `all(not same_box(new, m) for m in contents-before)`
-/
namespace Platypus

inductive BoxRel where
  | first        -- only the first solution has a smaller box index somewhere
  | second       -- only the second
  | same         -- all box indices equal
  | incomparable -- both have (early `return 0` / `return False`)
  deriving DecidableEq, Repr

section
variable {α : Type} [LT α] [DecidableLT α] [BEq α] [Neg α] [OfNat α 0] [Sub α] [Mul α] [Div α] [Add α]

/-- the epsilon list after one objective: the last epsilon is reused for extra objectives -/
def epsNext : List α → List α
  | _ :: e :: es => e :: es
  | es => es

/-- box index of one objective value (already direction-adjusted) -/
def boxIdx (fl : α → α) (e o : α) : α := fl (o / e)

/-- the flag loop shared by `same_box` and `compare` -/
def boxScan (fl : α → α) : List Bool → List α → List α → List α → Bool → Bool → BoxRel
  | d :: ds, e :: es, x :: xs, y :: ys, d1, d2 =>
    let i1 := boxIdx fl e (adj d x)
    let i2 := boxIdx fl e (adj d y)
    if i1 < i2 then (if d2 then .incomparable else boxScan fl ds (epsNext (e :: es)) xs ys true d2)
    else if i2 < i1 then (if d1 then .incomparable else boxScan fl ds (epsNext (e :: es)) xs ys d1 true)
    else boxScan fl ds (epsNext (e :: es)) xs ys d1 d2
  | _, _, _, _, d1, d2 => if !d1 && !d2 then .same else if d1 then .first else .second

/-- squared distance to the ideal corner of the own box: `Σ pow(o - floor(o/ε)·ε, 2)` from 0.0 -/
def cornerDist (fl sq : α → α) : List Bool → List α → List α → α → α
  | d :: ds, e :: es, x :: xs, acc =>
    let o := adj d x
    cornerDist fl sq ds (epsNext (e :: es)) xs (acc + sq (o - boxIdx fl e o * e))
  | _, _, _, acc => acc

/-- `EpsilonDominance.compare` -/
def epsCompare (fl sq : α → α) (constrained : Bool) (dirs : List Bool) (eps : List α) (a b : Sol α) : Int :=
  match cvBlock constrained a.cv b.cv with
  | some r => r
  | none =>
    match boxScan fl dirs eps a.objs b.objs false false with
    | .incomparable => 0
    | .first => -1
    | .second => 1
    | .same =>
      if cornerDist fl sq dirs eps a.objs 0 < cornerDist fl sq dirs eps b.objs 0 then -1 else 1

/-- the comparator as repaired: inside one box a solution that Pareto-dominates the other is preferred outright
(`ParetoDominance().compare` is consulted first); only mutually non-dominated box mates are separated by the
corner distance.  In exact arithmetic this is `epsCompare` (theorem `C05.epsCompareP_eq`); on doubles it differs
exactly where the two corner distances round to the same value or to the wrong order. -/
def epsCompareP (fl sq : α → α) (constrained : Bool) (dirs : List Bool) (eps : List α) (a b : Sol α) : Int :=
  match cvBlock constrained a.cv b.cv with
  | some r => r
  | none =>
    match boxScan fl dirs eps a.objs b.objs false false with
    | .incomparable => 0
    | .first => -1
    | .second => 1
    | .same =>
      let p := paretoCompare constrained dirs a b
      if p == -1 then -1 else if p == 1 then 1
      else if cornerDist fl sq dirs eps a.objs 0 < cornerDist fl sq dirs eps b.objs 0 then -1 else 1

/-- `EpsilonDominance.same_box` -/
def sameBox (fl : α → α) (constrained : Bool) (dirs : List Bool) (eps : List α) (a b : Sol α) : Bool :=
  match cvBlock constrained a.cv b.cv with
  | some _ => false
  | none => boxScan fl dirs eps a.objs b.objs false false == .same
end

section
variable {σ : Type}

/-- `EpsilonBoxArchive.add`: state = (contents, improvements) -/
def epsArchiveAdd (cmp : σ → σ → Int) (same : σ → σ → Bool) (st : List σ × Nat) (s : σ) :
    (List σ × Nat) × Bool :=
  let r := archiveAdd cmp st.1 s
  if r.2 then ((r.1, if st.1.all (fun m => !same s m) then st.2 + 1 else st.2), true)
  else (st, false)

def epsArchiveOf (cmp : σ → σ → Int) (same : σ → σ → Bool) (xs : List σ) : List σ × Nat :=
  xs.foldl (fun st s => (epsArchiveAdd cmp same st s).1) ([], 0)
end

end Platypus
