import PlatypusModel.Model.Problems
/-
Reference implementation of the WFG toolkit and of WFG1–WFG9, written from the published definitions
(Huband, Hingston, Barone, While: "A Review of Multiobjective Test Problems and a Scalable Test Problem
Toolkit", IEEE TEC 10(5), 2006: shape functions Table X, transformation functions Table XI, problems
Table XIV), **not** from platypus/problems.py.  Core Lean only.

The one ingredient that is not in the paper is `correct01`: the authors' reference toolkit snaps values
within 1e-10 outside [0,1] back onto the interval after every transformation, and so does every port of it.

Indices: the paper is 1-based; lists here are 0-based, `k` position parameters first, then `l` distance
parameters, `M` objectives, and `k` is a multiple of `M - 1`.
-/
namespace Platypus

structure WOps (α : Type) where
  floor : α → α
  ceil : α → α
  abs : α → α
  le : α → α → Bool
  eps : α

section
variable {α : Type} [Add α] [Sub α] [Mul α] [Div α] [Neg α] [OfNat α 0] [OfNat α 1]

def WOps.min (o : WOps α) (a b : α) : α := if o.le a b then a else b
def WOps.max (o : WOps α) (a b : α) : α := if o.le b a then a else b

def correct01 (o : WOps α) (a : α) : α :=
  if o.le a 0 && o.le (-o.eps) a then 0
  else if o.le 1 a && o.le a (1 + o.eps) then 1
  else a

/-! ### transformation functions (Table XI) -/

/-- `b_poly(y, α) = y^α` -/
def bPoly (t : Trig α) (o : WOps α) (y a : α) : α := correct01 o (t.pow y a)

/-- `b_flat(y, A, B, C) = A + min(0, ⌊y - B⌋) A (B - y)/B - min(0, ⌊C - y⌋) (1 - A)(y - C)/(1 - C)` -/
def bFlat (o : WOps α) (y A B C : α) : α :=
  correct01 o (A + o.min 0 (o.floor (y - B)) * (A * (B - y) / B) - o.min 0 (o.floor (C - y)) * ((1 - A) * (y - C) / (1 - C)))

/-- `b_param(y, u, A, B, C) = y^(B + (C - B) v(u))`, `v(u) = A - (1 - 2u) |⌊0.5 - u⌋ + A|` -/
def bParam (t : Trig α) (o : WOps α) (y u A B C : α) : α :=
  let half : α := 1 / (1 + 1)
  let v := A - (1 - (1 + 1) * u) * o.abs (o.floor (half - u) + A)
  correct01 o (t.pow y (B + (C - B) * v))

/-- `s_linear(y, A) = |y - A| / |⌊A - y⌋ + A|` -/
def sLinear (o : WOps α) (y A : α) : α := correct01 o (o.abs (y - A) / o.abs (o.floor (A - y) + A))

/-- `s_decept(y, A, B, C) = 1 + (|y - A| - B) (⌊y - A + B⌋ (1 - C + (A - B)/B)/(A - B) + ⌊A + B - y⌋ (1 - C + (1 - A - B)/B)/(1 - A - B) + 1/B)` -/
def sDecept (o : WOps α) (y A B C : α) : α :=
  correct01 o (1 + (o.abs (y - A) - B) *
    (o.floor (y - A + B) * (1 - C + (A - B) / B) / (A - B) + o.floor (A + B - y) * (1 - C + (1 - A - B) / B) / (1 - A - B) + 1 / B))

/-- `s_multi(y, A, B, C) = (1 + cos((4A + 2)π(0.5 - |y - C|/(2(⌊C - y⌋ + C)))) + 4B(|y - C|/(2(⌊C - y⌋ + C)))²)/(B + 2)` -/
def sMulti (t : Trig α) (o : WOps α) (y A B C : α) : α :=
  let two : α := 1 + 1
  let half : α := 1 / two
  let q := o.abs (y - C) / (two * (o.floor (C - y) + C))
  correct01 o ((1 + t.cos ((t.ofNat 4 * A + two) * t.pi * (half - q)) + t.ofNat 4 * B * (q * q)) / (B + two))

/-- `r_sum(y, w) = Σ wᵢ yᵢ / Σ wᵢ` -/
def rSum (o : WOps α) (y w : List α) : α :=
  correct01 o (sumL (List.zipWith (· * ·) w y) / sumL (w.take y.length))

/-- `r_nonsep(y, A) = Σⱼ (yⱼ + Σ_{k=0}^{A-2} |yⱼ - y_{(j+k+1) mod |y|}|) / (|y|/A ⌈A/2⌉ (1 + 2A - 2⌈A/2⌉))` -/
def rNonsep (t : Trig α) (o : WOps α) (y : List α) (A : Nat) : α :=
  let n := y.length
  let num := sumL ((List.range n).map fun j =>
    y.getD j 0 + sumL ((List.range (A - 1)).map fun k => o.abs (y.getD j 0 - y.getD ((j + k + 1) % n) 0)))
  let c := (A + 1) / 2                        -- ⌈A/2⌉
  correct01 o (num / (t.ofNat n / t.ofNat A * t.ofNat c * (1 + t.ofNat (2 * A) - t.ofNat (2 * c))))

/-! ### shape functions (Table X), `x` of length `M - 1`, objective index `m = 1 … M` -/

def shLinear (M m : Nat) (x : List α) : α :=
  let p := prodL (x.take (M - m))
  if m = 1 then p else p * (1 - x.getD (M - m) 0)

def shConvex (t : Trig α) (M m : Nat) (x : List α) : α :=
  let half : α := 1 / (1 + 1)
  let p := prodL ((x.take (M - m)).map fun v => 1 - t.cos (v * t.pi * half))
  if m = 1 then p else p * (1 - t.sin (x.getD (M - m) 0 * t.pi * half))

def shConcave (t : Trig α) (M m : Nat) (x : List α) : α :=
  let half : α := 1 / (1 + 1)
  let p := prodL ((x.take (M - m)).map fun v => t.sin (v * t.pi * half))
  if m = 1 then p else p * t.cos (x.getD (M - m) 0 * t.pi * half)

/-- `mixed_M = (1 - x₁ - cos(2Aπx₁ + π/2)/(2Aπ))^α` -/
def shMixed (t : Trig α) (x : List α) (A alpha : α) : α :=
  let two : α := 1 + 1
  let x1 := x.getD 0 0
  t.pow (1 - x1 - t.cos (two * A * t.pi * x1 + t.pi / two) / (two * A * t.pi)) alpha

/-- `disc_M = 1 - x₁^α cos²(A x₁^β π)` -/
def shDisc (t : Trig α) (x : List α) (A alpha beta : α) : α :=
  let x1 := x.getD 0 0
  let c := t.cos (A * t.pow x1 beta * t.pi)
  1 - t.pow x1 alpha * (c * c)

/-! ### the framework: `x` from the last transition vector, objectives from the shapes -/

/-- `xᵢ = max(t_M, Aᵢ)(tᵢ - 0.5) + 0.5` for `i < M`, `x_M = t_M` -/
def wfgX (o : WOps α) (tv : List α) (A : List α) : List α :=
  let half : α := 1 / (1 + 1)
  let tM := tv.getLast?.getD 0
  (List.zipWith (fun ti ai => o.max tM ai * (ti - half) + half) tv.dropLast A) ++ [tM]

/-- `f_m = D x_M + S_m h_m`, `D = 1`, `S_m = 2m` -/
def wfgF (t : Trig α) (x : List α) (h : List α) : List α :=
  let xM := x.getLast?.getD 0
  (List.range h.length).map fun i => xM + t.ofNat (2 * (i + 1)) * h.getD i 0

/-- `z_[0,1]`: `zᵢ / (2i)` -/
def wfgNorm (t : Trig α) (z : List α) : List α :=
  (List.range z.length).map fun i => z.getD i 0 / t.ofNat (2 * (i + 1))

/-- reduce to `M` values: `M - 1` groups of `k/(M-1)` position parameters, then all distance parameters -/
def wfgReduce (k M : Nat) (y : List α) (r : List α → Nat → α) : List α :=
  let g := k / (M - 1)
  ((List.range (M - 1)).map fun i => r ((y.drop (i * g)).take g) (i * g)) ++ [r (y.drop k) k]

def ones (A : List α) : List α := A.map fun _ => 1

def wfg1 (t : Trig α) (o : WOps α) (k M : Nat) (z : List α) : List α :=
  let c := fun (a b : Nat) => t.ofNat a / t.ofNat b
  let y := wfgNorm t z
  let n := y.length
  let y := (List.range n).map fun i => if i < k then y.getD i 0 else sLinear o (y.getD i 0) (c 35 100)
  let y := (List.range n).map fun i => if i < k then y.getD i 0 else bFlat o (y.getD i 0) (c 8 10) (c 75 100) (c 85 100)
  let y := y.map fun v => bPoly t o v (c 2 100)
  let tv := wfgReduce k M y fun ys off => rSum o ys ((List.range ys.length).map fun j => t.ofNat (2 * (off + j + 1)))
  let x := wfgX o tv (List.replicate (M - 1) 1)
  let h := ((List.range (M - 1)).map fun i => shConvex t M (i + 1) x.dropLast) ++ [shMixed t x.dropLast (t.ofNat 5) 1]
  wfgF t x h

/-- the second transition of WFG2 / WFG3: pairs of distance parameters through `r_nonsep(·, 2)` -/
def wfg2T2 (t : Trig α) (o : WOps α) (k : Nat) (y : List α) : List α :=
  let l := y.length - k
  y.take k ++ (List.range (l / 2)).map fun i => rNonsep t o [y.getD (k + 2 * i) 0, y.getD (k + 2 * i + 1) 0] 2

def wfg23 (t : Trig α) (o : WOps α) (k M : Nat) (z : List α) (three : Bool) : List α :=
  let c := fun (a b : Nat) => t.ofNat a / t.ofNat b
  let y := wfgNorm t z
  let n := y.length
  let y := (List.range n).map fun i => if i < k then y.getD i 0 else sLinear o (y.getD i 0) (c 35 100)
  let y := wfg2T2 t o k y
  let tv := wfgReduce k M y fun ys _ => rSum o ys (List.replicate ys.length 1)
  let A : List α := if three then (List.range (M - 1)).map fun i => if i = 0 then 1 else 0 else List.replicate (M - 1) 1
  let x := wfgX o tv A
  let h := if three then (List.range M).map fun i => shLinear M (i + 1) x.dropLast
           else ((List.range (M - 1)).map fun i => shConvex t M (i + 1) x.dropLast) ++ [shDisc t x.dropLast (t.ofNat 5) 1 1]
  wfgF t x h

def concaveF (t : Trig α) (o : WOps α) (M : Nat) (tv : List α) : List α :=
  let x := wfgX o tv (List.replicate (M - 1) 1)
  wfgF t x ((List.range M).map fun i => shConcave t M (i + 1) x.dropLast)

def reduceSum (o : WOps α) (k M : Nat) (y : List α) : List α :=
  wfgReduce k M y fun ys _ => rSum o ys (List.replicate ys.length 1)

def reduceNonsep (t : Trig α) (o : WOps α) (k M : Nat) (y : List α) : List α :=
  let g := k / (M - 1)
  ((List.range (M - 1)).map fun i => rNonsep t o ((y.drop (i * g)).take g) g) ++ [rNonsep t o (y.drop k) (y.length - k)]

def wfg4 (t : Trig α) (o : WOps α) (k M : Nat) (z : List α) : List α :=
  let c := fun (a b : Nat) => t.ofNat a / t.ofNat b
  let y := (wfgNorm t z).map fun v => sMulti t o v (t.ofNat 30) (t.ofNat 10) (c 35 100)
  concaveF t o M (reduceSum o k M y)

def wfg5 (t : Trig α) (o : WOps α) (k M : Nat) (z : List α) : List α :=
  let c := fun (a b : Nat) => t.ofNat a / t.ofNat b
  let y := (wfgNorm t z).map fun v => sDecept o v (c 35 100) (c 1 1000) (c 5 100)
  concaveF t o M (reduceSum o k M y)

def wfg6 (t : Trig α) (o : WOps α) (k M : Nat) (z : List α) : List α :=
  let c := fun (a b : Nat) => t.ofNat a / t.ofNat b
  let y := wfgNorm t z
  let y := (List.range y.length).map fun i => if i < k then y.getD i 0 else sLinear o (y.getD i 0) (c 35 100)
  concaveF t o M (reduceNonsep t o k M y)

def biasArgs (t : Trig α) : α × α × α := (t.ofNat 98 / t.ofNat 100 / (t.ofNat 4998 / t.ofNat 100), t.ofNat 2 / t.ofNat 100, t.ofNat 50)

def wfg7 (t : Trig α) (o : WOps α) (k M : Nat) (z : List α) : List α :=
  let c := fun (a b : Nat) => t.ofNat a / t.ofNat b
  let y := wfgNorm t z
  let n := y.length
  let (A, B, C) := biasArgs t
  let y1 := (List.range n).map fun i =>
    if i < k then bParam t o (y.getD i 0) (rSum o (y.drop (i + 1)) (List.replicate (n - i - 1) 1)) A B C else y.getD i 0
  let y2 := (List.range n).map fun i => if i < k then y1.getD i 0 else sLinear o (y1.getD i 0) (c 35 100)
  concaveF t o M (reduceSum o k M y2)

def wfg8 (t : Trig α) (o : WOps α) (k M : Nat) (z : List α) : List α :=
  let c := fun (a b : Nat) => t.ofNat a / t.ofNat b
  let y := wfgNorm t z
  let n := y.length
  let (A, B, C) := biasArgs t
  let y1 := (List.range n).map fun i =>
    if i < k then y.getD i 0 else bParam t o (y.getD i 0) (rSum o (y.take i) (List.replicate i 1)) A B C
  let y2 := (List.range n).map fun i => if i < k then y1.getD i 0 else sLinear o (y1.getD i 0) (c 35 100)
  concaveF t o M (reduceSum o k M y2)

def wfg9 (t : Trig α) (o : WOps α) (k M : Nat) (z : List α) : List α :=
  let c := fun (a b : Nat) => t.ofNat a / t.ofNat b
  let y := wfgNorm t z
  let n := y.length
  let (A, B, C) := biasArgs t
  let y1 := (List.range n).map fun i =>
    if i + 1 < n then bParam t o (y.getD i 0) (rSum o (y.drop (i + 1)) (List.replicate (n - i - 1) 1)) A B C else y.getD i 0
  let y2 := (List.range n).map fun i =>
    if i < k then sDecept o (y1.getD i 0) (c 35 100) (c 1 1000) (c 5 100)
    else sMulti t o (y1.getD i 0) (t.ofNat 30) (t.ofNat 95) (c 35 100)
  concaveF t o M (reduceNonsep t o k M y2)

end
end Platypus
