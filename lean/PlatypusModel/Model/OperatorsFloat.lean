import PlatypusModel.Model.Operators
import PlatypusModel.Model.PyFloat
/-
Arithmetic kernels of the real-valued operators over `Float`, transcribed formula by formula from
platypus/operators.py and platypus/_math.py, with Python's error behaviour (ZeroDivisionError, builtin
`pow` of a negative base to a fractional power giving a complex number, `math.pow` domain / overflow).
Used only by the driver (bit-exact correspondence); no theorem depends on them.
-/
namespace Platypus.FK

open Platypus

abbrev E := Except OpErr

def EPS : Float := Float.ofBits 0x3CB0000000000000

def div (a b : Float) : E Float := if b == 0.0 then .error .zerodiv else .ok (a / b)

def isInt (e : Float) : Bool := e.floor == e

/-- builtin `pow(b, e)` / `b ** e` on floats -/
def pyPow (b e : Float) : E Float :=
  if b == 0.0 && e < 0.0 then .error .zerodiv
  else if b < 0.0 && !(isInt e) && b.isFinite && e.isFinite then .error .domain   -- complex result
  else
    let r := Float.pow b e
    if r.isInf && b.isFinite && e.isFinite then .error .domain else .ok r          -- OverflowError

/-- `math.pow(b, e)` -/
def mathPow (b e : Float) : E Float :=
  if b == 0.0 && e < 0.0 then .error .domain
  else if b < 0.0 && !(isInt e) && b.isFinite && e.isFinite then .error .domain
  else
    let r := Float.pow b e
    if r.isInf && b.isFinite && e.isFinite then .error .domain else .ok r

/-- `PM.pm_mutation` up to (not including) the clip -/
def pmKernel (di : Float) (x lb ub : Float) : M Float Float := fun tape => do
  let (u, tape) ← popUniformU 0.0 1.0 tape
  let dx := ub - lb
  let delta ← if u < 0.5 then do
      let bl ← div (x - lb) dx
      let p ← pyPow (1.0 - bl) (di + 1.0)
      let b := 2.0 * u + (1.0 - 2.0 * u) * p
      let q ← pyPow b (1.0 / (di + 1.0))
      pure (q - 1.0)
    else do
      let bu ← div (ub - x) dx
      let p ← pyPow (1.0 - bu) (di + 1.0)
      let b := 2.0 * (1.0 - u) + 2.0 * (u - 0.5) * p
      let q ← pyPow b (1.0 / (di + 1.0))
      pure (1.0 - q)
  pure (x + delta * dx, tape)

/-- `UM.um_mutation`: `random.uniform(lb, ub)` -/
def umKernel (_x lb ub : Float) : M Float Float := popUniformU lb ub

/-- `SBX.sbx_crossover` between the ordering of the parents and the random swap -/
def sbxKernel (di : Float) (y1 y2 lb ub rand : Float) : E (Float × Float) := do
  let betaq := fun (bound : Float) => do
    let t ← div (2.0 * bound) (y2 - y1)
    let beta ← div 1.0 (1.0 + t)
    let p ← pyPow beta (di + 1.0)
    let alpha := 2.0 - p
    let ia ← div 1.0 alpha
    if rand <= ia then pyPow (alpha * rand) (1.0 / (di + 1.0))
    else do
      let a2 ← div 1.0 (2.0 - alpha * rand)
      pyPow a2 (1.0 / (di + 1.0))
  let b1 ← betaq (y1 - lb)
  let x1 := 0.5 * ((y1 + y2) - b1 * (y2 - y1))
  let b2 ← betaq (ub - y2)
  let x2 := 0.5 * ((y1 + y2) + b2 * (y2 - y1))
  pure (x1, x2)

def deKernel (f : Float) (v1 v2 v3 : Float) : Float := v3 + f * (v1 - v2)

/-- `UniformMutation`: `x + (uniform(0,1) - 0.5) * perturbation` -/
def uniformMutKernel (perturbation : Float) (x _lb _ub : Float) : M Float Float := fun tape => do
  let (u, tape) ← popUniformU 0.0 1.0 tape
  pure (x + (u - 0.5) * perturbation, tape)

/-- `NonUniformMutation`: `fraction = min(1.0, (nfe / swarm_size) / float(max_iterations))` is passed in -/
def nonUniformKernel (perturbation nfe swarm maxIter : Float) (x lb ub : Float) : M Float Float := fun tape => do
  let (up, tape) ← popBit tape
  let diff := if up then ub - x else lb - x
  let (u, tape) ← popUniformU 0.0 1.0 tape
  let cur ← div nfe swarm
  let fr0 ← div cur maxIter
  let fraction := if fr0 < 1.0 then fr0 else 1.0
  let e ← mathPow (1.0 - fraction) perturbation
  let p ← mathPow u e
  pure (x + diff * (1.0 - p), tape)

/-! ### vector helpers of `_math.py` -/
def vadd (x y : List Float) : List Float := List.zipWith (· + ·) x y
def vsub (x y : List Float) : List Float := List.zipWith (· - ·) x y
def vmul (s : Float) (x : List Float) : List Float := x.map (s * ·)
/-- `reduce(operator.add, [x*y …], 0)`: plain left fold (the initial int 0 + float is exact) -/
def dot (x y : List Float) : Float := (List.zipWith (· * ·) x y).foldl (· + ·) 0.0
def magnitude (x : List Float) : Float := (dot x x).sqrt
def isZero (x : List Float) : Bool := x.all (fun v => v.abs < EPS)
def project (u v : List Float) : E (List Float) := do
  let vv := dot v v
  if vv == 0.0 then pure (u.map fun _ => 0.0)      -- projection onto a zero vector
  else
    let c ← div (dot u v) vv
    pure (vmul c v)
def orthogonalize (u : List Float) (vs : List (List Float)) : E (List Float) :=
  vs.foldlM (fun u v => do let p ← project u v; pure (vsub u p)) u
def normalize (u : List Float) : E (List Float) :=
  if isZero u then .error .domain else do
    let s ← div 1.0 (magnitude u)
    pure (vmul s u)

/-- `[sum([x[i][j] for i in range(k)]) / k for j in range(n)]` — builtin `sum` is compensated -/
def centroid (xs : List (List Float)) (n : Nat) : List Float :=
  (List.range n).map fun j => pySumF (xs.map (·.getD j 0.0)) / Float.ofNat xs.length

/-- `PCX.pcx(parents)` up to the clip; the last parent is the base -/
def pcxKernel (zeta eta : Float) (n : Nat) (xs : List (List Float)) : M Float (List Float) := fun tape => do
  let k := xs.length
  let g := centroid xs n
  let last := xs.getLastD []
  let init : Float × List (List Float) := (0.0, [vsub last g])
  let (dsum, eEta) ← (xs.dropLast).foldlM (fun (st : Float × List (List Float)) xi => do
      let d := vsub xi g
      if !isZero d then
        let e ← orthogonalize d st.2
        if !isZero e then
          let ne ← normalize e
          pure (st.1 + magnitude e, st.2 ++ [ne])
        else pure st
      else pure st) init
  let dd ← if k == 1 then Except.error OpErr.zerodiv else div dsum (Float.ofNat (k - 1))
  let (z, tape) ← popGauss 0.0 zeta tape
  let vars := vadd last (vmul z (eEta.headD []))
  let (et, tape) ← popGauss 0.0 eta tape
  let vars := (eEta.drop 1).foldl (fun v e => vadd v (vmul (et * dd) e)) vars
  pure (vars, tape)

/-- `random_vector(n)`: n draws of gauss(0, 1) -/
def randomVector : Nat → M Float (List Float)
  | 0 => fun tape => pure ([], tape)
  | m + 1 => fun tape => do
    let (v, tape) ← popGauss 0.0 1.0 tape
    let (rest, tape) ← randomVector m tape
    pure (v :: rest, tape)

/-- `UNDX.undx(parents)` up to the clip -/
def undxKernel (zeta eta : Float) (n : Nat) (xs : List (List Float)) : M Float (List Float) := fun tape => do
  let g := centroid xs n
  let last := xs.getLastD []
  let eZeta ← (xs.dropLast).foldlM (fun (ez : List (List Float)) xi => do
      let d := vsub xi g
      if !isZero d then
        let dbar := magnitude d
        let e ← orthogonalize d ez
        if !isZero e then
          let ne ← normalize e
          pure (ez ++ [vmul dbar ne])
        else pure ez
      else pure ez) []
  let dD := magnitude (vsub last g)
  let (eEta, tape) ← (List.range (n - eZeta.length)).foldlM (fun (st : List (List Float) × Tape Float) _ => do
      let (d, tape) ← randomVector n st.2
      if !isZero d then
        let e ← orthogonalize d st.1
        if !isZero e then
          let ne ← normalize e
          pure (st.1 ++ [vmul dD ne], tape)
        else pure (st.1, tape)
      else pure (st.1, tape)) ([], tape)
  let (vars, tape) ← eZeta.foldlM (fun (st : List Float × Tape Float) e => do
      let (z, tape) ← popGauss 0.0 zeta st.2
      pure (vadd st.1 (vmul z e), tape)) (g, tape)
  let sg ← div eta (Float.sqrt (Float.ofNat n))
  let (vars, tape) ← (eEta.drop 1).foldlM (fun (st : List Float × Tape Float) e => do
      let (z, tape) ← popGauss 0.0 sg st.2
      pure (vadd st.1 (vmul z e), tape)) (vars, tape)
  pure (vars, tape)

/-- `SPX.evolve`: one child from the already expanded simplex `x` -/
def spxChild (x : List (List Float)) (m : Nat) : M Float (List Float) := fun tape => do
  let n := x.length
  let (r, tape) ← (List.range (n - 1)).foldlM (fun (st : List Float × Tape Float) i => do
      let (u, tape) ← popUniformU 0.0 1.0 st.2
      let p ← mathPow u (1.0 / (Float.ofNat i + 1.0))
      pure (st.1 ++ [p], tape)) ([], tape)
  -- C[0] = 0; C[i][j] = r[i-1] * (x[i-1][j] - x[i][j] + C[i-1][j])
  let c := (List.range (n - 1)).foldl (fun (cprev : List Float) i0 =>
      let i := i0 + 1
      let xi1 := x.getD (i - 1) []
      let xi := x.getD i []
      (List.range m).map fun j => r.getD (i - 1) 0.0 * (xi1.getD j 0.0 - xi.getD j 0.0 + cprev.getD j 0.0))
    (List.replicate m 0.0)
  let lastx := x.getLastD []
  pure ((List.range m).map (fun j => lastx.getD j 0.0 + c.getD j 0.0), tape)

def spxExpand (expansion : Float) (xs : List (List Float)) (m : Nat) : List (List Float) :=
  let g := centroid xs m
  xs.map fun xi => vadd g (vmul expansion (vsub xi g))

end Platypus.FK
