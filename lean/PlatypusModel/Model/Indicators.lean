import PlatypusModel.Model.Dominance
import PlatypusModel.Model.PyFloat
/-
Model of platypus/core.py `normalize`, platypus/distance.py and platypus/indicators.py
(GenerationalDistance, InvertedGenerationalDistance, EpsilonIndicator, Spacing, Hypervolume).  Core Lean only.

One definition per function, generic in the scalar type; the numeric primitives whose floating-point
behaviour matters are parameters bundled in `NumOps` (`sum` is CPython's compensated `sum`, `sqrt`, `pow`):
instantiated with `Float` by the driver (bit-exact correspondence) and with exact arithmetic by the
theorems.

Python → model
* `normalize(solutions, minimum, maximum)`: feasible members only; bounds from the feasible members when
  not given; `PlatypusError` when some range is smaller than EPSILON → `normalizeWith`, `boundsOf`
* `Hypervolume.calculate`: feasible → normalize → drop members with some normalised objective > 1 →
  `invert` → `calc_internal`;  `invert` and the nadir filter treat every direction (repaired code: a
  maximised objective is clipped to [0,1] without inversion and dropped when below 0; `fixedMax = false`
  reproduces the originally pinned code, which only handled minimised objectives)
* `calc_internal`, `filter_nondominated`, `reduce_set`, `surface_unchanged_to` operate on an array prefix
  with swaps, transcribed literally on `Array`
-/
namespace Platypus

structure ISol (α : Type) where
  objs : List α
  cv : α

structure NumOps (α : Type) where
  sum : List α → α
  sqrt : α → α
  pow : α → α → α          -- math.pow
  eps : α                  -- EPSILON
  inf : α                  -- +infinity

section
variable {α : Type} [Add α] [Sub α] [Mul α] [Div α] [Neg α] [LT α] [LE α] [DecidableLT α] [DecidableLE α]
  [BEq α] [OfNat α 0] [OfNat α 1]

def isFeasible (s : ISol α) : Bool := s.cv == 0

/-- Python `min(list)` / `max(list)`: first extremal element -/
def pyMinList (dflt : α) : List α → α
  | [] => dflt
  | x :: xs => xs.foldl (fun m y => if y < m then y else m) x
def pyMaxList (dflt : α) : List α → α
  | [] => dflt
  | x :: xs => xs.foldl (fun m y => if m < y then y else m) x

def absA (x : α) : α := if x < 0 then -x else x

inductive IErr where
  | emptyRange      -- PlatypusError("objective with empty range")
  | noFeasible      -- min([]) ValueError
  | zerodiv
  | index
  deriving Repr, DecidableEq

/-- bounds computed from the feasible members of `sols` -/
def boundsOf (nobjs : Nat) (sols : List (ISol α)) : Except IErr (List α × List α) :=
  let feas := sols.filter isFeasible
  if feas.isEmpty then .error .noFeasible
  else .ok ((List.range nobjs).map (fun i => pyMinList 0 (feas.map (fun s => s.objs.getD i 0))),
            (List.range nobjs).map (fun i => pyMaxList 0 (feas.map (fun s => s.objs.getD i 0))))

def checkRanges (eps : α) (mn mx : List α) : Except IErr Unit :=
  if (mn.zip mx).any (fun p => absA (p.2 - p.1) < eps) then .error .emptyRange else .ok ()

def normObjs (mn mx objs : List α) : List α :=
  List.zipWith (fun (b : α × α) x => (x - b.1) / (b.2 - b.1)) (mn.zip mx) objs

/-- `normalize(reference_set)` in an indicator's constructor: bounds + feasible reference members normalised -/
def refNormalize (ops : NumOps α) (nobjs : Nat) (ref : List (ISol α)) :
    Except IErr ((List α × List α) × List (List α)) := do
  if ref.isEmpty then .error .noFeasible      -- normalize returns None: unpacking fails
  else
    let (mn, mx) ← boundsOf nobjs ref
    checkRanges ops.eps mn mx
    pure ((mn, mx), (ref.filter isFeasible).map (fun s => normObjs mn mx s.objs))

def euclid (ops : NumOps α) (x y : List α) : α :=
  ops.sqrt (ops.sum (List.zipWith (fun a b => ops.pow (a - b) (1 + 1)) x y))

def distanceToNearest (ops : NumOps α) (x : List α) (set : List (List α)) : α :=
  if set.isEmpty then ops.inf else pyMinList ops.inf (set.map (fun y => euclid ops x y))

def ofNatA : Nat → α
  | 0 => 0
  | n + 1 => ofNatA n + 1

/-- `GenerationalDistance(reference_set, d).calculate(set)` -/
def generationalDistance (ops : NumOps α) (nobjs : Nat) (d : α) (ref set : List (ISol α)) : Except IErr α := do
  let ((mn, mx), refN) ← refNormalize ops nobjs ref
  let feas := set.filter isFeasible
  if feas.isEmpty then pure ops.inf
  else
    checkRanges ops.eps mn mx
    let fN := feas.map (fun s => normObjs mn mx s.objs)
    pure (ops.pow (ops.sum (fN.map (fun x => ops.pow (distanceToNearest ops x refN) d))) (1 / d) / ofNatA feas.length)

/-- `InvertedGenerationalDistance(reference_set, d).calculate(set)` -/
def invertedGenerationalDistance (ops : NumOps α) (nobjs : Nat) (d : α) (ref set : List (ISol α)) : Except IErr α := do
  let ((mn, mx), refN) ← refNormalize ops nobjs ref
  let feas := set.filter isFeasible
  if !feas.isEmpty then checkRanges ops.eps mn mx
  let fN := feas.map (fun s => normObjs mn mx s.objs)
  if refN.isEmpty then .error .zerodiv
  else pure (ops.pow (ops.sum (refN.map (fun r => ops.pow (distanceToNearest ops r fN) d))) (1 / d) / ofNatA refN.length)

/-- `EpsilonIndicator(reference_set).calculate(set)`; `dirs` are used by the repaired code only -/
def epsilonIndicator (ops : NumOps α) (fixedDirs : Bool) (dirs : List Bool) (nobjs : Nat) (ref set : List (ISol α)) :
    Except IErr α := do
  let ((mn, mx), refN) ← refNormalize ops nobjs ref
  let feas := set.filter isFeasible
  if feas.isEmpty then pure ops.inf
  else
    checkRanges ops.eps mn mx
    let fN := feas.map (fun s => normObjs mn mx s.objs)
    if refN.isEmpty then .error .noFeasible
    else
      let diff := fun (a r : List α) =>
        pyMaxList 0 (List.zipWith (fun (dk : Bool × α) rk => if fixedDirs && dk.1 then rk - dk.2 else dk.2 - rk) (dirs.zip a) r)
      pure (pyMaxList 0 (refN.map (fun r => pyMinList 0 (fN.map (fun a => diff a r)))))

def manhattan (ops : NumOps α) (x y : List α) : α := ops.sum (List.zipWith (fun a b => absA (a - b)) x y)

/-- `Spacing().calculate(set)` (raw objectives; a member is compared with every *other object*) -/
def spacing (ops : NumOps α) (set : List (ISol α)) : α :=
  let feas := (set.filter isFeasible).map (·.objs)
  if feas.length < 2 then 0
  else
    let idx := feas.zipIdx
    let ds := idx.map (fun (x, i) => pyMinList 0 ((idx.filter (fun q => q.2 != i)).map (fun q => manhattan ops x q.1)))
    let avg := ops.sum ds / ofNatA feas.length
    ops.sqrt (ops.sum (ds.map (fun d => ops.pow (d - avg) (1 + 1))) / ofNatA (feas.length - 1))

/-! ### hypervolume -/

/-- `Hypervolume.dominates(s1, s2, nobjs)`: strictly larger in every one of the first `nobjs` coordinates -/
def hvDominates (a b : Array α) (nobjs : Nat) : Bool :=
  nobjs > 0 && (List.range nobjs).all (fun i => b.getD i 0 < a.getD i 0)

def swapA {β : Type} (arr : Array β) (i j : Nat) : Array β :=
  if h : i < arr.size ∧ j < arr.size then (arr.set i arr[j] h.1).set j arr[i] (by simp [h.2]) else arr

/-- `filter_nondominated(solutions, nsols, nobjs)` → (array, n) -/
def filterNondominated (nobjs : Nat) : Nat → Array (Array α) → Nat → Nat → Nat → Array (Array α) × Nat
  | 0, arr, _, _, n => (arr, n)
  | fuel + 1, arr, i, j, n =>
    if i < n then
      if j < n then
        if hvDominates (arr.getD i #[]) (arr.getD j #[]) nobjs then
          filterNondominated nobjs fuel (swapA arr j (n - 1)) i j (n - 1)
        else if hvDominates (arr.getD j #[]) (arr.getD i #[]) nobjs then
          -- n -= 1; swap(i, n); i -= 1; break; then i += 1  ⇒ restart the inner loop at the same i
          filterNondominated nobjs fuel (swapA arr i (n - 1)) i (i + 1) (n - 1)
        else filterNondominated nobjs fuel arr i (j + 1) n
      else filterNondominated nobjs fuel arr (i + 1) (i + 2) n
    else (arr, n)

/-- `reduce_set(solutions, nsols, obj, threshold)` (the element swapped in is not re-examined, as in the source) -/
def reduceSet (obj : Nat) (threshold : α) : Nat → Array (Array α) → Nat → Nat → Array (Array α) × Nat
  | 0, arr, _, n => (arr, n)
  | fuel + 1, arr, i, n =>
    if i < n then
      if (arr.getD i #[]).getD obj 0 ≤ threshold then reduceSet obj threshold fuel (swapA arr i (n - 1)) (i + 1) (n - 1)
      else reduceSet obj threshold fuel arr (i + 1) n
    else (arr, n)

/-- `calc_internal(solutions, nsols, nobjs)`; `fuelD` bounds the recursion over objectives, `fuelN` each loop -/
def calcInternal : Nat → Array (Array α) → Nat → Nat → Array (Array α) × α
  | 0, arr, _, _ => (arr, 0)
  | fuelD + 1, arr, nsols, nobjs =>
    let rec loop : Nat → Array (Array α) → Nat → α → α → Array (Array α) × α
      | 0, arr, _, volume, _ => (arr, volume)
      | fuel + 1, arr, n, volume, distance =>
        if n > 0 then
          let (arr, nnondom) := filterNondominated (nobjs - 1) ((n + 1) * (n + 1) + 1) arr 0 1 n
          let (arr, temp) :=
            if nobjs < 3 then (arr, (arr.getD 0 #[]).getD 0 0)
            else calcInternal fuelD arr nnondom (nobjs - 1)
          let tdist := pyMinList 0 ((List.range n).map (fun i => (arr.getD i #[]).getD (nobjs - 1) 0))
          let volume := volume + temp * (tdist - distance)
          let (arr, n') := reduceSet (nobjs - 1) tdist (n + 1) arr 0 n
          loop fuel arr n' volume tdist
        else (arr, volume)
    loop (2 * nsols + 2) arr nsols 0 0

/-- `invert` + clipping of one normalised objective vector -/
def hvInvert (fixedMax : Bool) (dirs : List Bool) (n : List α) : List α :=
  List.zipWith (fun (isMax : Bool) x =>
    let clipped := pyMaxList 0 [0, pyMinList 0 [1, x]]       -- max(0.0, min(1.0, x))
    if !isMax then 1 - clipped else if fixedMax then clipped else x) dirs n

/-- the nadir filter of `calculate` -/
def hvKeep (fixedMax : Bool) (dirs : List Bool) (n : List α) : Bool :=
  (dirs.zip n).all (fun p => if p.1 && fixedMax then 0 ≤ p.2 else p.2 ≤ 1)

/-- `Hypervolume(minimum, maximum).calculate(set)` with the members given once each -/
def hypervolume (eps : α) (fixedMax : Bool) (dirs : List Bool) (mn mx : List α) (set : List (ISol α)) : Except IErr α := do
  let feas := set.filter isFeasible
  if !feas.isEmpty then checkRanges eps mn mx
  let pts := (feas.map (fun s => normObjs mn mx s.objs)).filter (hvKeep fixedMax dirs)
  if pts.isEmpty then pure 0
  else
    let arr := (pts.map (fun p => (hvInvert fixedMax dirs p).toArray)).toArray
    pure (calcInternal (dirs.length + 1) arr arr.size dirs.length).2
end

end Platypus
