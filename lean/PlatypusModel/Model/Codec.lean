import PlatypusModel.Model.Constraint
import PlatypusModel.Model.PyFloat
import PlatypusModel.Model.Machine
/-
Model of platypus/io.py: the JSON encoder hook (`_PlatypusJSONEncoder.default`) and the decoder
(`_PlatypusJSONDecoder.object_hook`) at the level of JSON values.  Core Lean only.

Python → model
* a parsed JSON document                                        → `J` (numbers: ints, or doubles as bit patterns)
* `json.load(..., object_hook=hook)` calls the hook on every JSON object **after** its members have been
  decoded, in document order, and the decoder object keeps mutable state (`problem`, and in the repaired
  code `inferred`)                                              → `decodeJ` threads `DState` left to right, bottom-up
* the hook: an object with "problem" and "result" configures the problem from the file (repaired code:
  also when the current problem is only a placeholder inferred from a solution's shape, re-binding the
  already decoded solutions) and returns the result; an object with "variables", "objectives",
  "constraints" becomes a solution whose violation is `Σ |cᵢ(xᵢ)|` over the *decoder's* problem;
  `fixedRebind = false` reproduces the originally pinned hook
* text ↔ double conversion (`repr` / `float`) is CPython's and is not modelled: leaves are already values
-/
namespace Platypus

inductive J where
  | null
  | bool (b : Bool)
  | int (i : Int)
  | num (bits : Nat)
  | str (s : String)
  | arr (l : List J)
  | obj (kv : List (String × J))

/-- problem definition as far as the decoder knows it -/
structure PDesc where
  nvars : Nat
  nobjs : Nat
  nconstrs : Nat
  dirs : List Bool              -- true = MAXIMIZE
  cons : List (Op × Float)
  inferred : Bool

/-- a decoded solution -/
structure DSol where
  vars : List J
  objs : List J
  cons : List J
  cv : Float
  feasible : Bool
  problem : PDesc

/-- decoded values: JSON-like, with solutions where the hook produced them -/
inductive V where
  | null
  | bool (b : Bool)
  | int (i : Int)
  | num (bits : Nat)
  | str (s : String)
  | arr (l : List V)
  | obj (kv : List (String × V))
  | sol (s : DSol)

structure DState where
  problem : Option PDesc

def jNum? : J → Option Float
  | .int i => some (Float.ofInt i)
  | .num b => some (Float.ofBits b.toUInt64)
  | _ => none

/-- `sum([abs(f(x)) for (f, x) in zip(problem.constraints, solution.constraints)])` -/
def violationOf (p : PDesc) (cons : List J) : Float :=
  let items := (p.cons.zip cons).filterMap fun (c, x) => (jNum? x).map fun v => violItem 0.0001 c v
  let cv := (pySum items).toFloat
  if cv == 0.0 then 0.0 else cv

def mkSol (p : PDesc) (vars objs cons : List J) : DSol :=
  let cv := violationOf p cons
  { vars := vars, objs := objs, cons := cons, cv := cv, feasible := cv == 0.0, problem := p }

def placeholder (nv no nc : Nat) : PDesc :=
  { nvars := nv, nobjs := no, nconstrs := nc, dirs := List.replicate no false,
    cons := List.replicate nc (Op.eq, 0.0), inferred := true }

def lookup {β : Type} (k : String) (kv : List (String × β)) : Option β := (kv.find? (·.1 == k)).map (·.2)

mutual
/-- decoded plain values back as JSON (inside a solution's members there are no JSON objects) -/
def vToJ : V → J
  | .null => .null | .bool b => .bool b | .int i => .int i | .num b => .num b | .str s => .str s
  | .arr l => .arr (vToJList l)
  | .obj kv => .obj (vToJMembers kv)
  | .sol _ => .null
def vToJList : List V → List J
  | [] => []
  | x :: xs => vToJ x :: vToJList xs
def vToJMembers : List (String × V) → List (String × J)
  | [] => []
  | (k, x) :: xs => (k, vToJ x) :: vToJMembers xs
end

def vList : V → List J
  | .arr l => vToJList l
  | _ => []

/-- the "problem" entry of a file written from a live algorithm → problem description;
`parseCons` turns a declared constraint string into (operator, threshold) -/
def pdescOf (parseCons : String → Option (Op × Float)) (pv : V) : Option PDesc :=
  match pv with
  | .obj kv =>
    match lookup "nvars" kv, lookup "nobjs" kv, lookup "nconstrs" kv, lookup "directions" kv, lookup "constraints" kv with
    | some (.int nv), some (.int no), some (.int nc), some (.arr ds), some (.arr cs) =>
      some { nvars := nv.toNat, nobjs := no.toNat, nconstrs := nc.toNat,
             dirs := ds.map (fun d => match d with | .str "MAXIMIZE" => true | _ => false),
             cons := cs.filterMap (fun c => match c with | .str s => parseCons s | _ => none),
             inferred := false }
    | _, _, _, _, _ => none
  | _ => none

/-- `object_hook(d)` on an object whose members are already decoded -/
def hook (fixedRebind : Bool) (parseCons : String → Option (Op × Float)) (kv : List (String × V)) (st : DState) :
    V × DState :=
  match lookup "problem" kv, lookup "result" kv with
  | some pv, some res =>
    let reconfigure := match st.problem with
      | none => true
      | some p => fixedRebind && p.inferred
    if reconfigure then
      match pdescOf parseCons pv with
      | some p =>
        let res' := if fixedRebind then
            (match res with
              | .arr l => V.arr (l.map fun v => match v with
                  | .sol s => .sol (mkSol p s.vars s.objs s.cons)
                  | other => other)
              | other => other)
          else res
        (res', { problem := some p })
      | none => (res, st)
    else (res, st)
  | _, _ =>
    match lookup "variables" kv, lookup "objectives" kv, lookup "constraints" kv with
    | some vs, some os, some cs =>
      let p := match st.problem with
        | some p => p
        | none => placeholder (vList vs).length (vList os).length (vList cs).length
      (.sol (mkSol p (vList vs) (vList os) (vList cs)), { problem := some p })
    | _, _, _ => (.obj kv, st)

mutual
/-- bottom-up, document-order decoding with the decoder's state threaded through -/
def decodeJ (fixedRebind : Bool) (parseCons : String → Option (Op × Float)) : J → DState → V × DState
  | .null, st => (.null, st)
  | .bool b, st => (.bool b, st)
  | .int i, st => (.int i, st)
  | .num b, st => (.num b, st)
  | .str s, st => (.str s, st)
  | .arr l, st =>
    let (vs, st') := decodeList fixedRebind parseCons l st
    (.arr vs, st')
  | .obj kv, st =>
    let (kv', st') := decodeMembers fixedRebind parseCons kv st
    hook fixedRebind parseCons kv' st'

def decodeList (fixedRebind : Bool) (parseCons : String → Option (Op × Float)) : List J → DState → List V × DState
  | [], st => ([], st)
  | x :: xs, st =>
    let (v, st1) := decodeJ fixedRebind parseCons x st
    let (vs, st2) := decodeList fixedRebind parseCons xs st1
    (v :: vs, st2)

def decodeMembers (fixedRebind : Bool) (parseCons : String → Option (Op × Float)) :
    List (String × J) → DState → List (String × V) × DState
  | [], st => ([], st)
  | (k, x) :: xs, st =>
    let (v, st1) := decodeJ fixedRebind parseCons x st
    let (vs, st2) := decodeMembers fixedRebind parseCons xs st1
    ((k, v) :: vs, st2)
end

/-! ### encoder -/

structure ESol where
  vars : List J
  objs : List J
  cons : List J

/-- `default(Solution)` -/
def encodeSol (s : ESol) : J :=
  .obj [("variables", .arr s.vars), ("objectives", .arr s.objs), ("constraints", .arr s.cons)]

/-- a list or an archive of solutions -/
def encodeList (l : List ESol) : J := .arr (l.map encodeSol)

/-- `default(Algorithm)` -/
def encodeAlgorithm (name : String) (nfe : Int) (pname : String) (p : PDesc) (consStr : List String)
    (types : List String) (result : List ESol) : J :=
  .obj [("algorithm", .obj [("name", .str name), ("nfe", .int nfe)]),
        ("problem", .obj [("name", .str pname), ("nvars", .int p.nvars), ("nobjs", .int p.nobjs),
                          ("nconstrs", .int p.nconstrs), ("function", .null), ("types", .arr (types.map .str)),
                          ("directions", .arr (p.dirs.map fun d => .str (if d then "MAXIMIZE" else "MINIMIZE"))),
                          ("constraints", .arr (consStr.map .str))]),
        ("result", encodeList result)]

end Platypus
