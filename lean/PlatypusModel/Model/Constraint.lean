/-
Model of platypus/core.py: the six constraint violation functions, the `Constraint` expression parser
(`^([<>=!]+)\s*([^\s<>=!]+)$` + operator table + `float()`), total violation and feasibility.
Core Lean only.

Python → model
* `_constraint_eq/leq/geq/neq/lt/gt(x, y[, delta])`            → `Op.viol`
* `Constraint.OPERATORS` (dict lookup, KeyError → PlatypusError)  → `Op.ofString?`
* `re.match(r"^([<>=!]+)\s*([^\s<>=!]+)$", op)`                 → `splitExpr` (hand-written matcher for
  exactly this regular expression: greedy run of operator characters, optional ASCII/Unicode
  whitespace run, then a non-empty run of characters that are neither whitespace nor operator
  characters, up to the end — Python's `$` also allows one trailing "\n")
* `float(token)`                                                → parameter `parseNum`
* `Constraint(op, value)`: `op + str(value)` only names it; function is `OPERATORS[op]` with `y=float(value)`
* `sum([abs(f(x)) for …])`, `feasible = violation == 0.0`        → `totalViolation`, `feasible`
-/
namespace Platypus

inductive Op where
  | eq | leq | geq | neq | lt | gt
  deriving DecidableEq, Repr

namespace Op
/-- `Constraint.OPERATORS[token]` on the characters of the token -/
def ofChars? : List Char → Option Op
  | ['=', '='] => some eq
  | ['<', '='] => some leq
  | ['>', '='] => some geq
  | ['!', '='] => some neq
  | ['<'] => some lt
  | ['>'] => some gt
  | _ => none

def ofString? (s : String) : Option Op := ofChars? s.toList

def toChars : Op → List Char
  | eq => ['=', '='] | leq => ['<', '='] | geq => ['>', '='] | neq => ['!', '='] | lt => ['<'] | gt => ['>']

def toString (o : Op) : String := String.ofList o.toChars
end Op

section
variable {α : Type} [LT α] [LE α] [DecidableLT α] [DecidableLE α] [BEq α]
  [Sub α] [Add α] [Neg α] [OfNat α 0] [OfNat α 1]

/-- Python `abs` on an ordered type -/
def pyAbs (x : α) : α := if x < 0 then -x else x

/-- violation of `x <op> y` with the `delta` used by the strict operators -/
def Op.viol (op : Op) (delta : α) (x y : α) : α :=
  match op with
  | .eq => pyAbs (x - y)
  | .leq => if x ≤ y then 0 else pyAbs (x - y)
  | .geq => if y ≤ x then 0 else pyAbs (x - y)
  | .neq => if x != y then 0 else 1
  | .lt => if x < y then 0 else pyAbs (x - y) + delta
  | .gt => if y < x then 0 else pyAbs (x - y) + delta

/-- `sum(abs(f_i(x_i)))` as a plain left fold from 0 (exact arithmetic; the Float driver uses pySum) -/
def totalViolation (delta : α) (cs : List (Op × α)) (xs : List α) : α :=
  (List.zipWith (fun (c : Op × α) x => pyAbs (c.1.viol delta x c.2)) cs xs).foldl (· + ·) 0

def feasible (delta : α) (cs : List (Op × α)) (xs : List α) : Bool :=
  totalViolation delta cs xs == 0
end

/-! ### the expression grammar -/

def isOpChar (c : Char) : Bool := c == '<' || c == '>' || c == '=' || c == '!'

/-- characters matched by `\s` in a Python `str` pattern (Unicode whitespace) -/
def isPySpace (c : Char) : Bool :=
  let n := c.toNat
  (9 ≤ n && n ≤ 13) || (28 ≤ n && n ≤ 32) || n == 0x85 || n == 0xa0 || n == 0x1680 ||
  (0x2000 ≤ n && n ≤ 0x200a) || n == 0x2028 || n == 0x2029 || n == 0x202f || n == 0x205f || n == 0x3000

/-- the match of `^([<>=!]+)\s*([^\s<>=!]+)$` on the characters of the expression:
`(group 1, group 2)` or `none` -/
def splitChars (cs : List Char) : Option (List Char × List Char) :=
  let ops := cs.takeWhile isOpChar
  let rest := (cs.dropWhile isOpChar).dropWhile isPySpace
  let tok := rest.takeWhile (fun c => !isPySpace c && !isOpChar c)
  let tail := rest.dropWhile (fun c => !isPySpace c && !isOpChar c)
  if ops.isEmpty || tok.isEmpty then none
  else if tail.isEmpty || tail == ['\n'] then some (ops, tok)
  else none

inductive ParseResult (α : Type) where
  | ok (op : Op) (y : α)
  | error
  deriving Repr, DecidableEq

/-- `Constraint(expr)` for a string expression: every failure is a `PlatypusError` -/
def parseChars {α : Type} (parseNum : List Char → Option α) (cs : List Char) : ParseResult α :=
  match splitChars cs with
  | none => .error
  | some (o, t) =>
    match Op.ofChars? o, parseNum t with
    | some op, some y => .ok op y
    | _, _ => .error

def parseConstraint {α : Type} (parseNum : String → Option α) (s : String) : ParseResult α :=
  parseChars (fun t => parseNum (String.ofList t)) s.toList

end Platypus
