/-
Model of how optimisation directions are declared (platypus/core.py): `Direction.to_direction` and
`FixedLengthArray.__setitem__` with that conversion, as used by `problem.directions[...] = ...`.
Core Lean only.

Python → model
* what a user may assign: a `Direction` member, the legacy ints `Problem.MAXIMIZE = 1` / `MINIMIZE = -1`, a string
  (`"maximize"`, any case), or a list / tuple of those                         → `DAtom`, `DArg`
* `to_direction`: `Direction[s.upper()]`, `Direction(i)`, element-wise for sequences; anything else raises
                                                                                → `toDir` (`none` = raises)
* `__setitem__`: the value is converted first; an integer index stores it; a slice stores a converted sequence
  element by element when its length equals the number of selected slots and otherwise stores the converted
  value itself in every selected slot (so a sequence of the wrong length ends up *inside* every slot)
                                                                                → `dirSet`, `Slot`
* readers test `directions[i] == Direction.MAXIMIZE`: a slot that holds anything else counts as "minimise"
                                                                                → `Slot.isMax`
-/
namespace Platypus

inductive DAtom where
  | dir (isMax : Bool)
  | int (i : Int)
  | str (cs : List Char)

inductive DArg where
  | atom (a : DAtom)
  | seq (l : List DAtom)

/-- what a slot of `problem.directions` holds -/
inductive Slot where
  | d (isMax : Bool)
  | l (bs : List Bool)
  deriving DecidableEq, Repr

def Slot.isMax : Slot → Bool
  | .d b => b
  | .l _ => false

def toDirAtom : DAtom → Option Bool
  | .dir b => some b
  | .int 1 => some true
  | .int (-1) => some false
  | .int _ => none
  | .str cs =>
    let up := cs.map Char.toUpper
    if up == ['M', 'A', 'X', 'I', 'M', 'I', 'Z', 'E'] then some true
    else if up == ['M', 'I', 'N', 'I', 'M', 'I', 'Z', 'E'] then some false else none

/-- `Direction.to_direction(obj)`: a direction, or a list of directions -/
def toDir : DArg → Option Slot
  | .atom a => (toDirAtom a).map Slot.d
  | .seq l => (l.mapM toDirAtom).map Slot.l

inductive Sel where
  | idx (i : Nat)
  | slice (start stop : Nat)

/-- `directions[sel] = v`; `none` = the assignment raises (bad value, index out of range) -/
def dirSet (data : List Slot) (sel : Sel) (v : DArg) : Option (List Slot) :=
  match toDir v with
  | none => none
  | some c =>
    match sel with
    | .idx i => if i < data.length then some (data.set i c) else none
    | .slice start stop =>
      let stop := min stop data.length
      let n := stop - start
      some ((List.range data.length).map fun i =>
        if start ≤ i ∧ i < stop then
          match c with
          | .l bs => if bs.length = n then Slot.d (bs.getD (i - start) false) else c
          | .d _ => c
        else data.getD i c)

/-- a sequence of assignments, stopping at the first one that raises -/
def dirRun (data : List Slot) : List (Sel × DArg) → Option (List Slot)
  | [] => some data
  | (s, v) :: rest => (dirSet data s v).bind fun d => dirRun d rest

/-! ### the spellings of one declaration -/

def atomOf (style : Nat) (d : Bool) : DAtom :=
  match style % 3 with
  | 0 => .dir d
  | 1 => .int (if d then 1 else -1)
  | _ => .str (if d then ['m', 'a', 'x', 'i', 'm', 'i', 'z', 'e'] else ['M', 'I', 'N', 'I', 'M', 'I', 'Z', 'E'])

/-- one slice assignment of the whole list -/
def spellSlice (style : Nat) (dirs : List Bool) : List (Sel × DArg) :=
  [(.slice 0 dirs.length, .seq (dirs.map (atomOf style)))]

/-- one assignment per index -/
def spellIndex (style : Nat) (dirs : List Bool) : List (Sel × DArg) :=
  dirs.zipIdx.map fun (d, i) => (.idx i, .atom (atomOf style d))

/-- broadcast "minimise", then one one-slot slice per maximised objective -/
def spellBroadcast (style : Nat) (dirs : List Bool) : List (Sel × DArg) :=
  (.slice 0 dirs.length, .atom (atomOf style false)) ::
    (dirs.zipIdx.filter (·.1)).map fun (_, i) => (.slice i (i + 1), .atom (atomOf style true))

end Platypus
