/-
Model of platypus/types.py: int2bin, bin2int, bin2gray, gray2bin, Integer.{nbits,encode,decode}.
Core Lean only (no Mathlib) so that the driver can be compiled.

Python → model:
* lists of `bool`, most significant bit first                      → `List Bool`
* `int2bin(n, nbits)`: `while n: divmod; insert(0,…)` then left-pad → `int2bin`
* `bin2int(bits)`: `i = i*2 + bit`                                 → `bin2int` (left fold)
* `bin2gray(bits)`: `bits[:1] + [a ^ b for a,b in zip(bits[:-1], bits[1:])]`
* `gray2bin(bits)`: `b=[bits[0]]` raises IndexError on `[]`        → `Option`
* `Integer.__init__`: `nbits = int(math.log(max-min, 2)) + 1`      → `nbits w = Nat.log2 w + 1`
  (w = 0 is `math.log(0)` → ValueError: modelled by the caller, `nbits?`)
* `decode`: `v = bin2int(gray2bin(bits)); if v > w: v -= w; return min + v`
-/
namespace Platypus

/-- binary digits of `n`, least significant first, no trailing zeros (`[]` for 0) -/
def bitsLsb : Nat → List Bool
  | 0 => []
  | n + 1 => ((n + 1) % 2 == 1) :: bitsLsb ((n + 1) / 2)
decreasing_by omega

/-- `int2bin(n, nbits)` -/
def int2bin (n nbits : Nat) : List Bool :=
  let b := (bitsLsb n).reverse
  List.replicate (nbits - b.length) false ++ b

/-- `bin2int(bits)` -/
def bin2int (bits : List Bool) : Nat :=
  bits.foldl (fun i b => i * 2 + b.toNat) 0

/-- `bin2gray(bits)` -/
def bin2gray (bits : List Bool) : List Bool :=
  bits.take 1 ++ List.zipWith xor bits.dropLast bits.tail

def gray2binAux (prev : Bool) : List Bool → List Bool
  | [] => []
  | g :: gs => let b := xor prev g; b :: gray2binAux b gs

/-- `gray2bin(bits)`; `none` is the `IndexError` of `bits[0]` on the empty list -/
def gray2bin : List Bool → Option (List Bool)
  | [] => none
  | g :: gs => some (g :: gray2binAux g gs)

/-- number of bits `Integer(min, max)` allocates for width `w = max - min ≥ 1` -/
def nbits (w : Nat) : Nat := Nat.log2 w + 1

/-- `nbits` with Python's error: `math.log(0, 2)` raises ValueError -/
def nbits? (w : Nat) : Option Nat := if w = 0 then none else some (nbits w)

/-- `Integer.encode(value)` with `v = value - min_value` -/
def encode (w v : Nat) : List Bool := bin2gray (int2bin v (nbits w))

/-- `Integer.decode(bits) - min_value` -/
def decode (w : Nat) (bits : List Bool) : Option Nat :=
  (gray2bin bits).map fun b =>
    let v := bin2int b
    if v > w then v - w else v

def hamming : List Bool → List Bool → Nat
  | a :: as, b :: bs => (if a = b then 0 else 1) + hamming as bs
  | _, _ => 0

end Platypus
