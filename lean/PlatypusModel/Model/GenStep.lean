/-
Model of the evaluation bookkeeping of one `step()` of the generational algorithms in platypus/algorithms.py
(`AbstractGeneticAlgorithm.step` + the `iterate` methods).  Sizes only: how many offspring the step
submits to `evaluate_all` (= the counter increment, core.py `nfe += len(solutions)`), how many calls of
`variator.evolve` it makes, and how large the population is afterwards.  Core Lean only.

Python → model
* `if self.nfe == 0: self.initialize() else: self.iterate()`                    → `genStep` (first branch: `population_size`
  generated and evaluated)
* `while len(offspring) < n: offspring.extend(self.variator.evolve(parents))`   → `offLoopF` (NSGA-II, eps-NSGA-II, SPEA2,
  NSGA-III, IBEA with `n = population_size`; GeneticAlgorithm with `n = offspring_size`).  `sizes i` is the number of offspring
  returned by the `i`-th call of `evolve` of the whole run (an input: whatever the variator returns).  The fuel is `n`:
  theorem `offLoopF_reaches` shows it is never the reason the loop stops when every call returns at least one offspring.
* `for i in range(self.offspring_size): offspring.extend(self.variator.evolve([...]))` (EvolutionaryStrategy), the single
  `evolve` call of EpsMOEA                                                       → `callsF`
* `for i in range(self.population_size): offspring.extend(self.variator.evolve(...))` (GDE3), `for index in
  self._get_subproblems(): offspring = evolve(...); self.evaluate_all(offspring)` (MOEA/D without utility-based search: every
  subproblem once)                                                             → `callsF` with `population_size` calls
* PESA2 (`while len(self.population) < self.population_size`, the offspring *are* the next population), PAES
  (`evolve([parent])[0]`, one evaluation), `ParticleSwarm.iterate` / `CMAES.iterate` (the swarm / the sample of
  `offspring_size`, no variator)                                                → the last three styles
* survival: `offspring.extend(self.population); …; self.population = truncate(offspring, population_size)` (length
  `min population_size (k + |population|)`, C04 / C14 `truncate_length`); GeneticAlgorithm `offspring.append(self.fittest);
  sorted(...)[:population_size]`; EpsMOEA replaces members one for one         → `survivorsSize`
-/
namespace Platypus

/-- the `while len(offspring) < n` loop over the stream of offspring counts: fuel, offspring so far, index of the next
`evolve` call ↦ (offspring produced, index of the next call afterwards) -/
def offLoopF (sizes : Nat → Nat) (n : Nat) : Nat → Nat → Nat → Nat × Nat
  | 0, have_, pos => (have_, pos)
  | fuel + 1, have_, pos => if n ≤ have_ then (have_, pos) else offLoopF sizes n fuel (have_ + sizes pos) (pos + 1)

/-- exactly `m` calls of `evolve` -/
def callsF (sizes : Nat → Nat) : Nat → Nat → Nat → Nat × Nat
  | 0, have_, pos => (have_, pos)
  | m + 1, have_, pos => callsF sizes m (have_ + sizes pos) (pos + 1)

inductive GenStyle where
  | whileMerge      -- NSGA-II, eps-NSGA-II, SPEA2, NSGA-III, IBEA: loop until population_size offspring, merge, truncate
  | whileFittest    -- GeneticAlgorithm: loop until offspring_size offspring, append the fittest, sort, slice
  | callsMerge      -- EvolutionaryStrategy: offspring_size calls, merge, sort, slice
  | oneCallKeep     -- EpsMOEA: one call, members replaced one for one
  | popCallsMerge   -- GDE3: one call per population member, survival keeps population_size
  | popCallsKeep    -- MOEA/D (every subproblem searched): one call per subproblem, each batch evaluated at once, members replaced in place
  | whileReplace    -- PESA2: loop until population_size offspring, which become the population
  | oneCallOne      -- PAES: one call, its first offspring evaluated, the population stays one solution
  | fixed           -- particle swarms, CMA-ES: the whole swarm / sample is evaluated in every step, no variator call
  deriving DecidableEq, Repr

structure GenCfg where
  style : GenStyle
  popSize : Nat
  offSize : Nat

structure GenState where
  nfe : Nat      -- evaluation counter
  pos : Nat      -- calls of `evolve` made so far
  pop : Nat      -- size of the population
  deriving DecidableEq, Repr

/-- offspring of one `iterate` and the index of the next `evolve` call -/
def genOffspring (c : GenCfg) (sizes : Nat → Nat) (pos : Nat) : Nat × Nat :=
  match c.style with
  | .whileMerge => offLoopF sizes c.popSize c.popSize 0 pos
  | .whileFittest => offLoopF sizes c.offSize c.offSize 0 pos
  | .callsMerge => callsF sizes c.offSize 0 pos
  | .oneCallKeep => callsF sizes 1 0 pos
  | .popCallsMerge => callsF sizes c.popSize 0 pos
  | .popCallsKeep => callsF sizes c.popSize 0 pos
  | .whileReplace => offLoopF sizes c.popSize c.popSize 0 pos
  | .oneCallOne => (1, pos + 1)
  | .fixed => (c.popSize, pos)

/-- size of the next population given `k` evaluated offspring -/
def survivorsSize (c : GenCfg) (k pop : Nat) : Nat :=
  match c.style with
  | .whileMerge => min c.popSize (k + pop)
  | .whileFittest => min c.popSize (k + 1)
  | .callsMerge => min c.popSize (k + pop)
  | .oneCallKeep => pop
  | .popCallsMerge => min c.popSize (k + pop)
  | .popCallsKeep => pop
  | .whileReplace => k
  | .oneCallOne => pop
  | .fixed => pop

/-- one `step()` -/
def genStep (c : GenCfg) (sizes : Nat → Nat) (s : GenState) : GenState :=
  if s.nfe = 0 then { nfe := c.popSize, pos := s.pos, pop := c.popSize }
  else
    let r := genOffspring c sizes s.pos
    { nfe := s.nfe + r.1, pos := r.2, pop := survivorsSize c r.1 s.pop }

end Platypus
