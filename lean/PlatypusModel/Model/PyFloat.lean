/-
CPython 3.12 float primitives that Platypus code relies on and the Float instance of the models must
mirror bit for bit.  Core Lean only.

* `sum(iterable)` — `builtin_sum_impl` (Python/bltinmodule.c, 3.12): exact integer accumulation while the
  items are ints; at the first float the partial int sum is added to it with one rounding; from then on
  floats are accumulated with Neumaier's compensated summation, ints are added uncompensated; at the end
  the compensation is added if it is non-zero and finite.
* `min(a, b)` returns `b if b < a else a`; `max(a, b)` returns `b if b > a else a` (first wins ties / NaN).
-/
namespace Platypus

inductive PyItem where
  | int (i : Int)
  | flt (x : Float)

namespace PyItem
def toFloat : PyItem → Float
  | int i => Float.ofInt i
  | flt x => x
end PyItem

def neumaierLoop : List PyItem → Float → Float → Float
  | [], s, c => if c != 0.0 && c.isFinite then s + c else s
  | .flt x :: rest, s, c =>
    let t := s + x
    let c' := if s.abs >= x.abs then c + ((s - t) + x) else c + ((x - t) + s)
    neumaierLoop rest t c'
  | .int k :: rest, s, c => neumaierLoop rest (s + Float.ofInt k) c

def pySumFrom : List PyItem → Int → PyItem
  | [], acc => .int acc
  | .int k :: rest, acc => pySumFrom rest (acc + k)
  | .flt x :: rest, acc => .flt (neumaierLoop rest (Float.ofInt acc + x) 0.0)

/-- `sum(items)` (start = int 0) -/
def pySum (items : List PyItem) : PyItem := pySumFrom items 0

/-- `sum` of a list of floats -/
def pySumF (xs : List Float) : Float := (pySum (xs.map PyItem.flt)).toFloat

def pyMin (a b : Float) : Float := if b < a then b else a
def pyMax (a b : Float) : Float := if b > a then b else a

end Platypus
