/-
Reference implementations of benchmark problems, written from the published definitions
(Zitzler–Deb–Thiele 2000 for ZDT1–6; Deb–Thiele–Laumanns–Zitzler 2002 for DTLZ1–4, 7), **not** from
platypus/problems.py.  Core Lean only.

Generic in the scalar type: the transcendental functions are fields of `Trig`, so the same definitions are
run at `Float` by the driver (compared with the Python classes) and reasoned about over any ordered field
with functions satisfying `cos² + sin² = 1` (the front identities are algebraic).
-/
namespace Platypus

structure Trig (α : Type) where
  cos : α → α
  sin : α → α
  sqrt : α → α
  exp : α → α
  pow : α → α → α
  pi : α
  ofNat : Nat → α

section
variable {α : Type} [Add α] [Sub α] [Mul α] [Div α] [Neg α] [OfNat α 0] [OfNat α 1]

def sumL (l : List α) : α := l.foldl (· + ·) 0
def prodL (l : List α) : α := l.foldl (· * ·) 1

/-! ### DTLZ (M objectives, n variables, the last k = n - M + 1 are the distance variables) -/

/-- g of DTLZ1 / DTLZ3: `100 (k + Σ ((xᵢ - ½)² - cos(20π(xᵢ - ½))))` -/
def gRastrigin (t : Trig α) (xm : List α) : α :=
  let half : α := 1 / (1 + 1)
  t.ofNat 100 * (t.ofNat xm.length + sumL (xm.map fun x => (x - half) * (x - half) - t.cos (t.ofNat 20 * t.pi * (x - half))))

/-- g of DTLZ2 / DTLZ4: `Σ (xᵢ - ½)²` -/
def gSphere (xm : List α) : α :=
  let half : α := 1 / (1 + 1)
  sumL (xm.map fun x => (x - half) * (x - half))

/-- DTLZ1: `fᵢ = ½ (1+g) x₁⋯x_{M-i} (1 - x_{M-i+1})` -/
def dtlz1 (t : Trig α) (M : Nat) (x : List α) : List α :=
  let g := gRastrigin t (x.drop (M - 1))
  let half : α := 1 / (1 + 1)
  (List.range M).map fun i =>
    let p := prodL (x.take (M - 1 - i))
    let f := half * (1 + g) * p
    if i = 0 then f else f * (1 - x.getD (M - 1 - i) 0)

/-- the spherical front shape shared by DTLZ2, 3, 4 applied to angles `θⱼ = meta xⱼ · π/2` -/
def sphereShape (t : Trig α) (M : Nat) (r : α) (y : List α) : List α :=
  let half : α := 1 / (1 + 1)
  (List.range M).map fun i =>
    let p := prodL ((y.take (M - 1 - i)).map fun v => t.cos (half * t.pi * v))
    let f := r * p
    if i = 0 then f else f * t.sin (half * t.pi * y.getD (M - 1 - i) 0)

def dtlz2 (t : Trig α) (M : Nat) (x : List α) : List α := sphereShape t M (1 + gSphere (x.drop (M - 1))) x
def dtlz3 (t : Trig α) (M : Nat) (x : List α) : List α := sphereShape t M (1 + gRastrigin t (x.drop (M - 1))) x
def dtlz4 (t : Trig α) (M : Nat) (alpha : α) (x : List α) : List α :=
  sphereShape t M (1 + gSphere (x.drop (M - 1))) (x.map fun v => t.pow v alpha)

/-- DTLZ7: `fᵢ = xᵢ (i < M)`, `f_M = (1+g)(M - Σ fᵢ/(1+g) (1 + sin(3π fᵢ)))`, `g = 1 + 9/k Σ x_m` -/
def dtlz7 (t : Trig α) (M : Nat) (x : List α) : List α :=
  let xm := x.drop (M - 1)
  let g := 1 + t.ofNat 9 * sumL xm / t.ofNat xm.length
  let head := x.take (M - 1)
  let h := t.ofNat M - sumL (head.map fun f => f / (1 + g) * (1 + t.sin (t.ofNat 3 * t.pi * f)))
  head ++ [(1 + g) * h]

/-! ### ZDT (two objectives) -/

def zdtG (t : Trig α) (x : List α) : α := 1 + t.ofNat 9 * sumL (x.drop 1) / t.ofNat (x.length - 1)

def zdt1 (t : Trig α) (x : List α) : List α :=
  let f1 := x.getD 0 0; let g := zdtG t x
  [f1, g * (1 - t.sqrt (f1 / g))]

def zdt2 (t : Trig α) (x : List α) : List α :=
  let f1 := x.getD 0 0; let g := zdtG t x
  [f1, g * (1 - (f1 / g) * (f1 / g))]

def zdt3 (t : Trig α) (x : List α) : List α :=
  let f1 := x.getD 0 0; let g := zdtG t x
  [f1, g * (1 - t.sqrt (f1 / g) - f1 / g * t.sin (t.ofNat 10 * t.pi * f1))]

def zdt4G (t : Trig α) (x : List α) : α :=
  1 + t.ofNat 10 * t.ofNat (x.length - 1) + sumL ((x.drop 1).map fun v => v * v - t.ofNat 10 * t.cos (t.ofNat 4 * t.pi * v))

def zdt4 (t : Trig α) (x : List α) : List α :=
  let f1 := x.getD 0 0
  let g := zdt4G t x
  [f1, g * (1 - t.sqrt (f1 / g))]

def zdt6G (t : Trig α) (x : List α) : α :=
  1 + t.ofNat 9 * t.pow (sumL (x.drop 1) / t.ofNat (x.length - 1)) (1 / t.ofNat 4)

def zdt6 (t : Trig α) (x : List α) : List α :=
  let x1 := x.getD 0 0
  let s := t.sin (t.ofNat 6 * t.pi * x1)
  let f1 := 1 - t.exp (-(t.ofNat 4 * x1)) * (s * s * s * s * s * s)
  let g := zdt6G t x
  [f1, g * (1 - (f1 / g) * (f1 / g))]
end

/-- ZDT5 (bit strings): `f₁ = 1 + u(x₁)`, `g = Σ v(u(xᵢ))`, `v(u) = 2 + u if u < 5 else 1`, `f₂ = g / f₁` -/
def zdt5 (x : List (List Bool)) : Nat × Nat × Nat :=
  let u := fun (b : List Bool) => (b.filter id).length
  let f1 := 1 + u (x.headD [])
  let g := ((x.drop 1).map fun b => if u b < 5 then 2 + u b else 1).sum
  (f1, g, f1)      -- f₁, numerator and denominator of f₂ = g / f₁

/-! ### `FixedLengthArray.__setitem__` with a slice (platypus/core.py)

`solution.objectives[a:b] = value`: when `value` has a length and it equals the number of selected
positions the entries are stored one by one, otherwise **the value itself is stored in every selected
position** (broadcast) — also when it is a list of the wrong length. -/

inductive PV where
  | scalar (bits : Nat)
  | list (l : List PV)

def PV.isScalar : PV → Bool
  | .scalar _ => true
  | .list _ => false

/-- positions `start, start+1, …, stop-1` of `data` (already clipped by `slice.indices`) receive `value` -/
def sliceAssign (data : List PV) (start stop : Nat) (value : PV) : List PV :=
  let stop := min stop data.length
  let n := stop - start
  let elementwise : Option (List PV) := match value with
    | .list l => if l.length = n then some l else none
    | .scalar _ => none
  (List.range data.length).map fun i =>
    if start ≤ i ∧ i < stop then
      match elementwise with
      | some l => l.getD (i - start) value
      | none => value
    else data.getD i value

end Platypus
