/-
Model of platypus/operators.py: the variation operators as functions
  (parameters, declared types, parents, draw tape) ↦ error or (offspring, rest of the tape).
Core Lean only.

Randomness: every call of a primitive of Python's `random` made by the operator is one entry of the
*draw tape*; the model pops entries in order and fails with `tape` when the next entry is not the call it
makes (so the correspondence also checks the number, order and arguments of the draws).

Real-valued operators are concrete in structure (which variables are rewritten, in which order draws are
consumed, that what is written is `clip raw lb ub`, that `evaluated := false` accompanies every write)
and generic in arithmetic: the formula that produces `raw` is a *kernel* parameter.  The theorems hold
for every kernel; the driver supplies the kernels transcribed from the Python formulas over `Float`
(Model/OperatorsFloat.lean).

Python → model
* `copy.deepcopy(parent)` → the parent value itself (immutable values: parents cannot be modified)
* `isinstance(problem.types[i], Real/Binary/Permutation/Subset)` → constructor of `TypeD` (`Integer` is a `Binary`)
* `clip(v, lo, hi) = max(lo, min(v, hi))` with Python's `min/max` (first argument wins unless the second
  is strictly smaller/larger) → `pyClip`
-/
namespace Platypus

inductive OpErr where
  | tape        -- the recorded tape does not match the draws the model makes
  | zerodiv | domain | index | platypus | arity | fuel
  deriving Repr, DecidableEq

/-- one call of a primitive of `random` with its outcome -/
inductive Draw (α : Type) where
  | uniform (a b v : α)        -- random.uniform(a, b) = v
  | gauss (mu sigma v : α)     -- random.gauss(mu, sigma) = v
  | randrange (n k : Nat)      -- random.randrange(n) = k
  | bit (b : Bool)             -- random.getrandbits(1)

abbrev Tape (α : Type) := List (Draw α)
abbrev M (α β : Type) := Tape α → Except OpErr (β × Tape α)

inductive Var (α : Type) where
  | real (x : α)
  | bits (b : List Bool)
  | perm (p : List Nat)
  | subset (s : List Nat)

inductive TypeD (α : Type) where
  | real (lo hi : α)
  | binary (n : Nat)
  | perm (n : Nat)            -- elements 0 … n-1
  | subset (n k : Nat)        -- k out of 0 … n-1

structure OSol (α : Type) where
  vars : List (Var α)
  evaluated : Bool

section
variable {α : Type}

/-! ### draw primitives -/

def popUniformU [BEq α] (lo hi : α) : M α α
  | .uniform a b v :: t => if a == lo && b == hi then .ok (v, t) else .error .tape
  | _ => .error .tape

def popRandrange (n : Nat) : M α Nat
  | .randrange m k :: t => if m == n && k < n then .ok (k, t) else .error .tape
  | _ => .error .tape

def popBit : M α Bool
  | .bit b :: t => .ok (b, t)
  | _ => .error .tape

def popGauss [BEq α] (mu sigma : α) : M α α
  | .gauss m s v :: t => if m == mu && s == sigma then .ok (v, t) else .error .tape
  | _ => .error .tape

/-- `clip(value, min_value, max_value)` with Python's `min` / `max` -/
def pyClip [LT α] [DecidableLT α] (v lo hi : α) : α :=
  let m := if hi < v then hi else v        -- min(v, hi): hi only if hi < v
  if lo < m then m else lo                 -- max(lo, m): m only if m > lo

end

/-! ### real-valued operators: structure (generic in the arithmetic kernels) -/
section
variable {α : Type} [LT α] [LE α] [DecidableLT α] [DecidableLE α] [BEq α]

/-- kernel of a per-variable mutation: `(x, lb, ub, tape) ↦ raw value` (it may draw) -/
abbrev Kernel1 (α : Type) := α → α → α → M α α

/-- PM / UM style: for every Real variable, with probability `p`, replace by `post (kernel x lb ub)`;
`clipIt = false` for UM (its kernel is itself a `uniform(lb, ub)` draw) -/
def mutateReals (zero one p : α) (clipIt : Bool) (k : Kernel1 α) :
    List (TypeD α) → List (Var α) → Bool → M α (List (Var α) × Bool)
  | .real lo hi :: ts, .real x :: vs, ev => fun tape => do
    let (u, tape) ← popUniformU zero one tape
    if u ≤ p then
      let (raw, tape) ← k x lo hi tape
      let v := if clipIt then pyClip raw lo hi else raw
      let ((rest, ev'), tape) ← mutateReals zero one p clipIt k ts vs false tape
      let _ := ev'
      pure ((.real v :: rest, false), tape)
    else
      let ((rest, ev'), tape) ← mutateReals zero one p clipIt k ts vs ev tape
      pure ((.real x :: rest, ev'), tape)
  | _ :: ts, v :: vs, ev => fun tape => do
    let ((rest, ev'), tape) ← mutateReals zero one p clipIt k ts vs ev tape
    pure ((v :: rest, ev'), tape)
  | _, vs, ev => fun tape => pure ((vs, ev), tape)

/-- `PM.mutate`, `UM.mutate`: `evaluated` stays as the parent's unless something was written -/
def mutationOp (zero one p : α) (clipIt : Bool) (k : Kernel1 α) (types : List (TypeD α)) (parent : OSol α) :
    M α (OSol α) := fun tape => do
  let ((vars, ev), tape) ← mutateReals zero one p clipIt k types parent.vars parent.evaluated tape
  pure ({ vars := vars, evaluated := ev }, tape)

/-- `UniformMutation` / `NonUniformMutation`: every variable (all are Real), with probability `p` -/
def mutateAll (zero one p : α) (k : Kernel1 α) :
    List (TypeD α) → List (Var α) → Bool → M α (List (Var α) × Bool)
  | .real lo hi :: ts, .real x :: vs, ev => fun tape => do
    let (u, tape) ← popUniformU zero one tape
    if u ≤ p then
      let (raw, tape) ← k x lo hi tape
      let ((rest, _), tape) ← mutateAll zero one p k ts vs false tape
      pure ((.real (pyClip raw lo hi) :: rest, false), tape)
    else
      let ((rest, ev'), tape) ← mutateAll zero one p k ts vs ev tape
      pure ((.real x :: rest, ev'), tape)
  | _, vs, ev => fun tape => pure ((vs, ev), tape)

/-- kernel of SBX: from the ordered pair `y1 ≤ y2`, bounds and the draw `rand`, the two raw children -/
abbrev KernelSBX (α : Type) := α → α → α → α → α → Except OpErr (α × α)

/-- `sbx_crossover(x1, x2, lb, ub)`; `absDx` = the gap used by the guard (`abs(x2 - x1)` in the
repaired code, `x2 - x1` in the originally pinned code), `eps` = EPSILON -/
def sbxVar (zero one eps : α) (gap : α → α → α) (k : KernelSBX α) (x1 x2 lo hi : α) : M α (α × α) := fun tape =>
  if eps < gap x1 x2 then do
    let (y1, y2) := if x1 < x2 then (x1, x2) else (x2, x1)
    let (r, tape) ← popUniformU zero one tape
    let (c1, c2) ← k y1 y2 lo hi r
    let (b, tape) ← popBit tape
    let (c1, c2) := if b then (c2, c1) else (c1, c2)
    pure ((pyClip c1 lo hi, pyClip c2 lo hi), tape)
  else pure ((x1, x2), tape)

def sbxVars (zero one half eps : α) (gap : α → α → α) (k : KernelSBX α) :
    List (TypeD α) → List (Var α) → List (Var α) → M α (List (Var α) × List (Var α) × Bool)
  | .real lo hi :: ts, .real x1 :: v1, .real x2 :: v2 => fun tape => do
    let (u, tape) ← popUniformU zero one tape
    if u ≤ half then
      let ((c1, c2), tape) ← sbxVar zero one eps gap k x1 x2 lo hi tape
      let ((r1, r2, _), tape) ← sbxVars zero one half eps gap k ts v1 v2 tape
      pure ((.real c1 :: r1, .real c2 :: r2, true), tape)
    else
      let ((r1, r2, w), tape) ← sbxVars zero one half eps gap k ts v1 v2 tape
      pure ((.real x1 :: r1, .real x2 :: r2, w), tape)
  | _ :: ts, a :: v1, b :: v2 => fun tape => do
    let ((r1, r2, w), tape) ← sbxVars zero one half eps gap k ts v1 v2 tape
    pure ((a :: r1, b :: r2, w), tape)
  | _, v1, v2 => fun tape => pure ((v1, v2, false), tape)

/-- `SBX.evolve(parents)`; `written` ⇒ both children are marked unevaluated -/
def sbxOp (zero one half eps p : α) (gap : α → α → α) (k : KernelSBX α) (types : List (TypeD α))
    (p1 p2 : OSol α) : M α (List (OSol α)) := fun tape => do
  let (u, tape) ← popUniformU zero one tape
  if u ≤ p then
    let ((v1, v2, w), tape) ← sbxVars zero one half eps gap k types p1.vars p2.vars tape
    pure ([{ vars := v1, evaluated := if w then false else p1.evaluated },
           { vars := v2, evaluated := if w then false else p2.evaluated }], tape)
  else pure ([p1, p2], tape)

/-- `DifferentialEvolution.evolve`: kernel `(v1, v2, v3) ↦ v3 + F (v1 - v2)` -/
def deVars (zero one cr : α) (k : α → α → α → α) (jrand : Nat) :
    Nat → List (TypeD α) → List (Var α) → List (Var α) → List (Var α) → List (Var α) → M α (List (Var α) × Bool)
  | j, .real lo hi :: ts, .real x0 :: v0, .real x1 :: v1, .real x2 :: v2, .real x3 :: v3 => fun tape => do
    let (u, tape) ← popUniformU zero one tape
    let ((rest, w), tape) ← deVars zero one cr k jrand (j + 1) ts v0 v1 v2 v3 tape
    if u ≤ cr || j == jrand then pure ((.real (pyClip (k x1 x2 x3) lo hi) :: rest, true), tape)
    else pure ((.real x0 :: rest, w), tape)
  | _, _, v0, _, _, _ => fun tape => pure ((v0, false), tape)

def deOp (zero one cr : α) (k : α → α → α → α) (types : List (TypeD α)) (p0 p1 p2 p3 : OSol α) :
    M α (List (OSol α)) := fun tape => do
  let (jrand, tape) ← popRandrange types.length tape
  let ((vars, w), tape) ← deVars zero one cr k jrand 0 types p0.vars p1.vars p2.vars p3.vars tape
  pure ([{ vars := vars, evaluated := if w then false else p0.evaluated }], tape)

/-- multi-parent operators (PCX, UNDX, SPX): the kernel produces the raw vector of one child from the
parents' real vectors; every variable of the child (a copy of the last parent) is `clip`ped -/
def clipVector : List (TypeD α) → List α → List (Var α)
  | .real lo hi :: ts, r :: rs => .real (pyClip r lo hi) :: clipVector ts rs
  | _, _ => []

def multiParentChild (k : List (List α) → M α (List α)) (types : List (TypeD α)) (parents : List (List α)) :
    M α (OSol α) := fun tape => do
  let (raw, tape) ← k parents tape
  pure ({ vars := clipVector types raw, evaluated := false }, tape)
end

/-! ### bit strings -/
section
variable {α : Type} [LE α] [DecidableLE α] [BEq α]

def flipBits (zero one p : α) : List Bool → Bool → M α (List Bool × Bool)
  | [], w => fun tape => pure (([], w), tape)
  | b :: bs, w => fun tape => do
    let (u, tape) ← popUniformU zero one tape
    if u ≤ p then
      let ((rest, _), tape) ← flipBits zero one p bs true tape
      pure (((!b) :: rest, true), tape)
    else
      let ((rest, w'), tape) ← flipBits zero one p bs w tape
      pure ((b :: rest, w'), tape)

/-- `BitFlip.mutate` (probability already resolved) -/
def bitFlipVars (zero one p : α) : List (TypeD α) → List (Var α) → Bool → M α (List (Var α) × Bool)
  | .binary _ :: ts, .bits b :: vs, w => fun tape => do
    let ((b', w1), tape) ← flipBits zero one p b w tape
    let ((rest, w2), tape) ← bitFlipVars zero one p ts vs w1 tape
    pure ((.bits b' :: rest, w2), tape)
  | _ :: ts, v :: vs, w => fun tape => do
    let ((rest, w'), tape) ← bitFlipVars zero one p ts vs w tape
    pure ((v :: rest, w'), tape)
  | _, vs, w => fun tape => pure ((vs, w), tape)

def bitFlipOp (zero one p : α) (types : List (TypeD α)) (parent : OSol α) : M α (OSol α) := fun tape => do
  let ((vars, w), tape) ← bitFlipVars zero one p types parent.vars false tape
  pure ({ vars := vars, evaluated := if w then false else parent.evaluated }, tape)

/-- HUX on one pair of bit strings: where the parents differ, exchange with probability ½ -/
def huxBits : List Bool → List Bool → Bool → M α (List Bool × List Bool × Bool)
  | a :: as, b :: bs, w => fun tape =>
    if a != b then do
      let (x, tape) ← popBit tape
      if x then
        let ((r1, r2, _), tape) ← huxBits as bs true tape
        pure (((!a) :: r1, (!b) :: r2, true), tape)
      else
        let ((r1, r2, w'), tape) ← huxBits as bs w tape
        pure ((a :: r1, b :: r2, w'), tape)
    else do
      let ((r1, r2, w'), tape) ← huxBits as bs w tape
      pure ((a :: r1, b :: r2, w'), tape)
  | as, bs, w => fun tape => pure ((as, bs, w), tape)

def huxVars : List (TypeD α) → List (Var α) → List (Var α) → Bool → M α (List (Var α) × List (Var α) × Bool)
  | .binary _ :: ts, .bits a :: v1, .bits b :: v2, w => fun tape => do
    let ((a', b', w1), tape) ← huxBits a b w tape
    let ((r1, r2, w2), tape) ← huxVars ts v1 v2 w1 tape
    pure ((.bits a' :: r1, .bits b' :: r2, w2), tape)
  | _ :: ts, a :: v1, b :: v2, w => fun tape => do
    let ((r1, r2, w'), tape) ← huxVars ts v1 v2 w tape
    pure ((a :: r1, b :: r2, w'), tape)
  | _, v1, v2, w => fun tape => pure ((v1, v2, w), tape)

def huxOp (zero one p : α) (types : List (TypeD α)) (p1 p2 : OSol α) : M α (List (OSol α)) := fun tape => do
  let (u, tape) ← popUniformU zero one tape
  if u ≤ p then
    let ((v1, v2, w), tape) ← huxVars types p1.vars p2.vars false tape
    pure ([{ vars := v1, evaluated := if w then false else p1.evaluated },
           { vars := v2, evaluated := if w then false else p2.evaluated }], tape)
  else pure ([p1, p2], tape)
end

/-! ### permutations -/
section
variable {α : Type} [LE α] [DecidableLE α] [BEq α]

/-- two distinct positions: `i = randrange(n); j = randrange(n); if n > 1: while i == j: j = randrange(n)`
(the loop is bounded by the tape) -/
def popDistinct (n : Nat) (i : Nat) : Nat → M α Nat
  | 0 => fun _ => .error .fuel
  | fuel + 1 => fun tape => do
    let (j, tape) ← popRandrange n tape
    if n > 1 && i == j then popDistinct n i fuel tape else pure (j, tape)

def popTwo (n : Nat) : M α (Nat × Nat) := fun tape => do
  let (i, tape) ← popRandrange n tape
  let (j, tape) ← popDistinct n i (tape.length + 1) tape
  pure ((i, j), tape)

def swapAt (p : List Nat) (i j : Nat) : List Nat :=
  (p.set i (p.getD j 0)).set j (p.getD i 0)

/-- remove the i-th element and insert it at position j (the two shifting loops of `Insertion`) -/
def insertAt (p : List Nat) (i j : Nat) : List Nat :=
  (p.eraseIdx i).insertIdx j (p.getD i 0)

def permMutVars (zero one prob : α) (f : List Nat → Nat → Nat → List Nat) :
    List (TypeD α) → List (Var α) → Bool → M α (List (Var α) × Bool)
  | .perm _ :: ts, .perm p :: vs, w => fun tape => do
    let (u, tape) ← popUniformU zero one tape
    if u ≤ prob then
      let ((i, j), tape) ← popTwo p.length tape
      let ((rest, _), tape) ← permMutVars zero one prob f ts vs true tape
      pure ((.perm (f p i j) :: rest, true), tape)
    else
      let ((rest, w'), tape) ← permMutVars zero one prob f ts vs w tape
      pure ((.perm p :: rest, w'), tape)
  | _ :: ts, v :: vs, w => fun tape => do
    let ((rest, w'), tape) ← permMutVars zero one prob f ts vs w tape
    pure ((v :: rest, w'), tape)
  | _, vs, w => fun tape => pure ((vs, w), tape)

/-- `Swap.mutate` / `Insertion.mutate` -/
def permMutOp (zero one prob : α) (f : List Nat → Nat → Nat → List Nat) (types : List (TypeD α)) (parent : OSol α) :
    M α (OSol α) := fun tape => do
  let ((vars, w), tape) ← permMutVars zero one prob f types parent.vars false tape
  pure ({ vars := vars, evaluated := if w then false else parent.evaluated }, tape)

/-- follow the replacement chain `while n in replacement: n = replacement[n]` (bounded: theorem
`pmx_fuel_suffices`) -/
def chase (repl : List (Nat × Nat)) : Nat → Nat → Option Nat
  | 0, _ => none
  | fuel + 1, x =>
    match repl.find? (fun p => p.1 == x) with
    | some p => chase repl fuel p.2
    | none => some x

/-- one child of PMX: positions inside [cp1, cp2] come from the other parent, the others follow the chain -/
def pmxChild (own other : List Nat) (cp1 cp2 : Nat) : Option (List Nat) :=
  -- replacement map of this child: other[i] ↦ own[i] for i in the segment (later entries overwrite earlier)
  let seg := (List.range own.length).filter (fun i => cp1 ≤ i && i ≤ cp2)
  let repl := (seg.map (fun i => (other.getD i 0, own.getD i 0))).reverse
  (List.range own.length).mapM fun i =>
    if cp1 ≤ i && i ≤ cp2 then some (other.getD i 0)
    else chase repl (own.length + 1) (own.getD i 0)

def pmxVars (zero one prob : α) : List (TypeD α) → List (Var α) → List (Var α) → Bool →
    M α (List (Var α) × List (Var α) × Bool)
  | .perm _ :: ts, .perm p1 :: v1, .perm p2 :: v2, w => fun tape => do
    let (u, tape) ← popUniformU zero one tape
    if u ≤ prob then
      let ((a, b), tape) ← popTwo p1.length tape
      let (cp1, cp2) := if a > b then (b, a) else (a, b)
      match pmxChild p1 p2 cp1 cp2, pmxChild p2 p1 cp1 cp2 with
      | some o1, some o2 =>
        let ((r1, r2, _), tape) ← pmxVars zero one prob ts v1 v2 true tape
        pure ((.perm o1 :: r1, .perm o2 :: r2, true), tape)
      | _, _ => .error .fuel
    else
      let ((r1, r2, w'), tape) ← pmxVars zero one prob ts v1 v2 w tape
      pure ((.perm p1 :: r1, .perm p2 :: r2, w'), tape)
  | _ :: ts, a :: v1, b :: v2, w => fun tape => do
    let ((r1, r2, w'), tape) ← pmxVars zero one prob ts v1 v2 w tape
    pure ((a :: r1, b :: r2, w'), tape)
  | _, v1, v2, w => fun tape => pure ((v1, v2, w), tape)

def pmxOp (zero one prob : α) (types : List (TypeD α)) (p1 p2 : OSol α) : M α (List (OSol α)) := fun tape => do
  let ((v1, v2, w), tape) ← pmxVars zero one prob types p1.vars p2.vars false tape
  pure ([{ vars := v1, evaluated := if w then false else p1.evaluated },
         { vars := v2, evaluated := if w then false else p2.evaluated }], tape)
end

/-! ### subsets -/
section
variable {α : Type} [LE α] [LT α] [DecidableLE α] [DecidableLT α] [BEq α]

/-- `Replace.mutate`: candidates are the declared elements not in the subset, in declared order -/
def replaceVars (zero one prob : α) : List (TypeD α) → List (Var α) → Bool → M α (List (Var α) × Bool)
  | .subset n _ :: ts, .subset s :: vs, w => fun tape => do
    let (u, tape) ← popUniformU zero one tape
    if u ≤ prob then
      if s.length < n then
        let (i, tape) ← popRandrange s.length tape
        let nonmembers := (List.range n).filter (fun e => !s.contains e)
        let (j, tape) ← popRandrange nonmembers.length tape
        let ((rest, _), tape) ← replaceVars zero one prob ts vs true tape
        pure ((.subset (s.set i (nonmembers.getD j 0)) :: rest, true), tape)
      else
        let ((rest, w'), tape) ← replaceVars zero one prob ts vs w tape
        pure ((.subset s :: rest, w'), tape)
    else
      let ((rest, w'), tape) ← replaceVars zero one prob ts vs w tape
      pure ((.subset s :: rest, w'), tape)
  | _ :: ts, v :: vs, w => fun tape => do
    let ((rest, w'), tape) ← replaceVars zero one prob ts vs w tape
    pure ((v :: rest, w'), tape)
  | _, vs, w => fun tape => pure ((vs, w), tape)

def replaceOp (zero one prob : α) (types : List (TypeD α)) (parent : OSol α) : M α (OSol α) := fun tape => do
  let ((vars, w), tape) ← replaceVars zero one prob types parent.vars false tape
  pure ({ vars := vars, evaluated := if w then false else parent.evaluated }, tape)

/-- SSX position loop: `s1`, `s2` are the parents' element sets taken before the loop -/
def ssxLoop (zero one half : α) (s1 s2 : List Nat) : List Nat → List Nat → M α (List Nat × List Nat)
  | a :: as, b :: bs => fun tape =>
    if !s1.contains b && !s2.contains a then do
      let (u, tape) ← popUniformU zero one tape
      let ((r1, r2), tape) ← ssxLoop zero one half s1 s2 as bs tape
      if u < half then pure ((b :: r1, a :: r2), tape) else pure ((a :: r1, b :: r2), tape)
    else do
      let ((r1, r2), tape) ← ssxLoop zero one half s1 s2 as bs tape
      pure ((a :: r1, b :: r2), tape)
  | as, bs => fun tape => pure ((as, bs), tape)

def ssxVars (zero one half prob : α) : List (TypeD α) → List (Var α) → List (Var α) → Bool →
    M α (List (Var α) × List (Var α) × Bool)
  | .subset _ k :: ts, .subset a :: v1, .subset b :: v2, w => fun tape => do
    let (u, tape) ← popUniformU zero one tape
    if u ≤ prob then
      let ((a1, b1), tape) ← ssxLoop zero one half a b (a.take k) (b.take k) tape
      let ((r1, r2, _), tape) ← ssxVars zero one half prob ts v1 v2 true tape
      pure ((.subset (a1 ++ a.drop k) :: r1, .subset (b1 ++ b.drop k) :: r2, true), tape)
    else
      let ((r1, r2, w'), tape) ← ssxVars zero one half prob ts v1 v2 w tape
      pure ((.subset a :: r1, .subset b :: r2, w'), tape)
  | _ :: ts, a :: v1, b :: v2, w => fun tape => do
    let ((r1, r2, w'), tape) ← ssxVars zero one half prob ts v1 v2 w tape
    pure ((a :: r1, b :: r2, w'), tape)
  | _, v1, v2, w => fun tape => pure ((v1, v2, w), tape)

def ssxOp (zero one half prob : α) (types : List (TypeD α)) (p1 p2 : OSol α) : M α (List (OSol α)) := fun tape => do
  let ((v1, v2, w), tape) ← ssxVars zero one half prob types p1.vars p2.vars false tape
  pure ([{ vars := v1, evaluated := if w then false else p1.evaluated },
         { vars := v2, evaluated := if w then false else p2.evaluated }], tape)
end

/-! ### combinators -/
section
variable {α : Type}

/-- an operator as the harness sees it: arity + action on a parent list -/
structure Oper (α : Type) where
  arity : Nat
  evolve : List (OSol α) → M α (List (OSol α))

/-- map a mutation over the offspring in order, threading the tape -/
def mapM_tape (f : OSol α → M α (OSol α)) : List (OSol α) → M α (List (OSol α))
  | [] => fun tape => pure ([], tape)
  | s :: ss => fun tape => do
    let (s', tape) ← f s tape
    let (rest, tape) ← mapM_tape f ss tape
    pure (s' :: rest, tape)

/-- `GAOperator(variation, mutation)` -/
def gaOperator (variation : Oper α) (mutation : OSol α → M α (OSol α)) : Oper α :=
  { arity := variation.arity,
    evolve := fun parents tape => do
      let (kids, tape) ← variation.evolve parents tape
      mapM_tape mutation kids tape }

/-- `CompoundMutation(m1, m2, …)` -/
def compoundMutation (ms : List (OSol α → M α (OSol α))) (parent : OSol α) : M α (OSol α) :=
  ms.foldl (fun acc m => fun tape => do let (s, tape) ← acc tape; m s tape) (fun tape => pure (parent, tape))

/-- `CompoundOperator(v1, v2, …)`: arity handling as in the source -/
def compoundOperator (vs : List (Oper α)) : Oper α :=
  { arity := (vs.head?.map (·.arity)).getD 0,
    evolve := fun parents =>
      vs.foldl (fun acc v => fun tape => do
        let (off, tape) ← acc tape
        if v.arity == off.length then v.evolve off tape
        else if v.arity == 1 && off.length ≥ 1 then
          mapM_tape (fun s tape => do
            let (r, tape) ← v.evolve [s] tape
            match r with
            | [c] => pure (c, tape)
            | _ => .error .arity) off tape
        else .error .platypus) (fun tape => pure (parents, tape)) }
/-! ### `Multimethod(algorithm, variators, update_frequency)`

`select()`: the call counter goes up; when it reaches `update_frequency` it is reset and the probabilities become
`counts[i] / float(sum(counts))` (`counts[i]` = 1 + number of members of the algorithm's archive / recency list that carry
tag `i`; counted by the caller); then `roulette(probabilities)` draws `uniform(0.0, sum(probabilities))` and returns the
first index whose running total exceeds the draw (0 if none does).  The constructor sets the probabilities to
`1.0 / len(variators)` and selects once.  One `evolve` call applies the variator chosen by the previous `select()`,
tags the offspring with its index and selects again. -/

structure MMState (α : Type) where
  next : Nat
  lastUpdate : Nat
  freq : Nat
  probs : List α

/-- the cumulative scan of `roulette`: first index whose running total exceeds `r`, 0 if none -/
def rouletteScan [LT α] [DecidableLT α] [Add α] (r : α) : List α → α → Nat → Nat
  | [], _, _ => 0
  | p :: rest, acc, i => if r < acc + p then i else rouletteScan r rest (acc + p) (i + 1)

/-- `roulette(probabilities)`; `total` is Python's `sum` -/
def roulette [BEq α] [LT α] [DecidableLT α] [Add α] (zero : α) (total : List α → α) (ps : List α) : M α Nat := fun tape => do
  let (r, tape) ← popUniformU zero (total ps) tape
  pure (rouletteScan r ps zero 0, tape)

/-- `Multimethod.select()` -/
def multimethodSelect [BEq α] [LT α] [DecidableLT α] [Add α] (zero : α) (total : List α → α) (newProbs : List Nat → List α)
    (counts : List Nat) (st : MMState α) : M α (MMState α) := fun tape => do
  let lu := st.lastUpdate + 1
  let (lu, probs) := if lu ≥ st.freq then (0, newProbs counts) else (lu, st.probs)
  let (nx, tape) ← roulette zero total probs tape
  pure ({ next := nx, lastUpdate := lu, freq := st.freq, probs := probs }, tape)

/-- `Multimethod.__init__` (`initProbs n` = `[1.0 / n] * n`) -/
def multimethodInit [BEq α] [LT α] [DecidableLT α] [Add α] (zero : α) (total : List α → α) (newProbs : List Nat → List α)
    (initProbs : Nat → List α) (n freq : Nat) (counts : List Nat) : M α (MMState α) :=
  multimethodSelect zero total newProbs counts { next := 0, lastUpdate := 0, freq := freq, probs := initProbs n }

/-- one `Multimethod.evolve(parents)`: the offspring, the tag they all receive, and the operator's next state -/
def multimethodEvolve [BEq α] [LT α] [DecidableLT α] [Add α] (zero : α) (total : List α → α) (newProbs : List Nat → List α)
    (vs : List (Oper α)) (counts : List Nat) (st : MMState α) (parents : List (OSol α)) :
    M α ((List (OSol α) × Nat) × MMState α) := fun tape =>
  match vs[st.next]? with
  | none => .error .index
  | some v => do
    let (kids, tape) ← v.evolve parents tape
    let (st', tape) ← multimethodSelect zero total newProbs counts st tape
    pure (((kids, st.next), st'), tape)

/-- `[counts[i] / float(sum(counts)) for i in range(len(variators))]`; `ofNat` is the conversion `float(...)` -/
def mmProbs [Div α] (ofNat : Nat → α) (counts : List Nat) : List α :=
  counts.map fun c => ofNat c / ofNat counts.sum

/-- `[1.0 / len(variators) for _ in range(len(variators))]` -/
def mmInitProbsG [Div α] (one : α) (ofNat : Nat → α) (n : Nat) : List α := List.replicate n (one / ofNat n)

/-- the arity a `Multimethod` reports between calls: that of the variator selected for the next call -/
def multimethodArity (vs : List (Oper α)) (st : MMState α) : Nat := (vs[st.next]?.map (·.arity)).getD 0
end

end Platypus
