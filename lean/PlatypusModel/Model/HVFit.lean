/-
Model of platypus/core.py: HypervolumeFitnessEvaluator.hypervolume (the binary hypervolume indicator I_HD of IBEA), as
repaired by the `fix:` commit "hypervolume fitness keeps its reference point beyond the nadir for maximised objectives".
Core Lean only; the same operation order as the Python expression (products before quotients, left to right).

Python → model
* `solution.normalized_objectives[d-1]`, `problem.directions[d-1] == MAXIMIZE`   → `n1 d`, `n2 d`, `maxs d` (functions of the
  zero-based coordinate index; the driver reads them from lists)
* `solution2 is None` (the reference point `rho` in every coordinate)            → `none`
* `a = 1.0 - a` for a maximised coordinate; `b = 1.0 - b` only when `b` is a solution's coordinate → `hvAdj`
* the recursion over `d`                                                          → `hvFit … (d + 1)` handles coordinate `d`
-/
namespace Platypus

section
variable {α : Type} [Sub α] [Add α] [Mul α] [Div α] [OfNat α 0] [OfNat α 1] [LT α] [DecidableLT α]

/-- a normalised coordinate in "smaller is better" orientation -/
def hvAdj (mx : Bool) (v : α) : α := if mx then 1 - v else v

/-- `hypervolume(solution1, solution2, d)`; `d = 0` is not reached by the code (it starts at `nobjs ≥ 1`) -/
def hvFit (rho : α) (maxs : Nat → Bool) (n1 : Nat → α) (n2 : Option (Nat → α)) : Nat → α
  | 0 => 0
  | d + 1 =>
    let a := hvAdj (maxs d) (n1 d)
    let b := match n2 with
      | none => rho
      | some f => hvAdj (maxs d) (f d)
    if d = 0 then (if a < b then (b - a) / rho else 0)
    else if a < b then hvFit rho maxs n1 none d * (b - a) / rho + hvFit rho maxs n1 n2 d * (rho - b) / rho
    else hvFit rho maxs n1 n2 d * (rho - a) / rho
end

end Platypus
