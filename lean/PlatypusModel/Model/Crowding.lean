import PlatypusModel.Model.Sorting
/-
Generic model of `crowding_distance(front)` (platypus/core.py): the same statements as `crowdingF` (Sorting.lean), over any
scalar type, with the crowding value in `Option α` (`none` = +infinity, absorbing under addition).  At `Float` it is run by
the driver next to `crowdingF` and compared with the implementation bit for bit; at `Rat` it is compared with the harness's
exact-fraction oracle; the theorems of `Props/C04Crowding.lean` are about this definition over any ordered field.

Python → model
* `solution.crowding_distance = 0.0` for all, then `unique(solutions)` (first occurrences by objective tuple)  → `uniqueG`
* fewer than 3 unique members: all of them +inf
* per objective: stable `sorted` by that objective; first and last `+= inf`; interior ones: if `max - min < EPSILON`
  the value *becomes* +inf, else `+= (next - previous) / (max - min)`                                        → `crowdingPassG`
-/
namespace Platypus

section
variable {α : Type}

/-- `a + b` with `none` = +infinity -/
def cdAdd [Add α] : Option α → Option α → Option α
  | some a, some b => some (a + b)
  | _, _ => none

/-- `unique(solutions)` by objective tuple, first occurrences -/
def uniqueG [BEq α] : List (Nat × List α) → List (List α) → List (Nat × List α)
  | [], _ => []
  | s :: rest, seen =>
    if seen.any (fun k => k == s.2) then uniqueG rest seen else s :: uniqueG rest (s.2 :: seen)

/-- update the entry of solution `i` -/
def cdUpdate (cds : List (Nat × Option α)) (i : Nat) (f : Option α → Option α) : List (Nat × Option α) :=
  cds.map fun (j, v) => if j == i then (j, f v) else (j, v)

variable [LE α] [DecidableLE α] [LT α] [DecidableLT α] [Add α] [Sub α] [Div α] [OfNat α 0]

/-- the stable sort of the unique members by objective `k` -/
def sortByObj (u : List (Nat × List α)) (k : Nat) : List (Nat × List α) :=
  u.mergeSort (fun a b => decide (a.2.getD k 0 ≤ b.2.getD k 0))

/-- one objective's pass -/
def crowdingPassG (eps : α) (u : List (Nat × List α)) (k : Nat) (cds : List (Nat × Option α)) : List (Nat × Option α) :=
  let key := fun (s : Nat × List α) => s.2.getD k 0
  let sorted := sortByObj u k
  match sorted.head?, sorted.getLast? with
  | some first, some last =>
    let minV := key first
    let maxV := key last
    let cds := cdUpdate cds first.1 (cdAdd · none)
    let cds := cdUpdate cds last.1 (cdAdd · none)
    let n := sorted.length
    (List.range (n - 2)).foldl (fun cds j0 =>
      let j := j0 + 1
      match sorted[j]?, sorted[j+1]?, sorted[j-1]? with
      | some s, some nx, some pv =>
        if maxV - minV < eps then cdUpdate cds s.1 (fun _ => none)
        else cdUpdate cds s.1 (cdAdd · (some ((key nx - key pv) / (maxV - minV))))
      | _, _, _ => cds) cds
  | _, _ => cds

/-- `crowding_distance(front)`: one value per position of the front (`none` = +infinity) -/
def crowdingG [BEq α] (eps : α) (nobjs : Nat) (front : List (List α)) : List (Option α) :=
  let idx := (List.range front.length).zip front
  let cds0 : List (Nat × Option α) := idx.map fun (i, _) => (i, some 0)
  let u := uniqueG idx []
  let cds :=
    if u.length < 3 then u.foldl (fun cds s => cdUpdate cds s.1 (fun _ => none)) cds0
    else (List.range nobjs).foldl (fun cds k => crowdingPassG eps u k cds) cds0
  cds.map (·.2)
end

/-- the Float instance as doubles (`none` ↦ +inf) -/
def crowdingGF (nobjs : Nat) (front : List (List Float)) : List Float :=
  (crowdingG EPSILON nobjs front).map fun | none => INF | some v => v

end Platypus
