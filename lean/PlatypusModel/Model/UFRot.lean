import PlatypusModel.Model.Problems
/-
Model of the two rotated CEC 2009 instances UF11 (= R2_DTLZ2_M5) and UF12 (= R3_DTLZ3_M5) of platypus/problems.py:
`_transform(x, M, lam, nvars, nobjs)` followed by the inner DTLZ problem and the penalty scaling.  Core Lean only.

Python → model
* `z = sum([M[i][j]*x[j] for j in range(nvars)])` (`sum` is a parameter: CPython's compensated sum on doubles)
  and the three-way case on `z` (inside `[0, 1]`: kept, no penalty; below: reflected with slope `lam[i]`, penalty `-z`;
  above: reflected from 1, penalty `z - 1`)                                        → `rotCoord`
* the accumulation of the penalties `psum[j] = sqrt(psum[j]^2 + p^2)` in the order of the three loops of the source
                                                                                   → `rotPenalty` (`hyp a b = sqrt(a^2 + b^2)` is a parameter)
* `objectives[i] = 2.0 / (1.0 + exp(-psum[i])) * (inner(zz)[i] + 1.0)`            → `rotObjectives`

The rotation matrix and the slopes are data (30 × 30 and 30 numbers per instance, copied from the CEC 2009 report into
the source); the model takes them as arguments and the correspondence check passes the library's tables.
-/
namespace Platypus

section
variable {α : Type} [Add α] [Sub α] [Mul α] [Div α] [Neg α] [LE α] [LT α] [DecidableLE α] [DecidableLT α] [OfNat α 0] [OfNat α 1] [OfNat α 2]

/-- one rotated coordinate: `(zz[i], p[i])` -/
def rotCoord (sum : List α → α) (row : List α) (lam : α) (x : List α) : α × α :=
  let z := sum (List.zipWith (· * ·) row x)
  if 0 ≤ z ∧ z ≤ 1 then (z, 0)
  else if z < 0 then (-lam * z, -z)
  else (1 - lam * (z - 1), z - 1)

/-- the penalties `psum` from the per-coordinate penalties `p`, in the order of the source -/
def rotPenalty (hyp : α → α → α) (nobjs : Nat) (p : List α) : List α :=
  -- for i in range(nvars-k+1, nvars+1): for j in range(nobjs): psum[j] = hyp(psum[j], p[i-1])     (nvars-k+1 = nobjs)
  let tailPart : α := (p.drop (nobjs - 1)).foldl hyp 0
  (List.range nobjs).map fun i0 =>
    let i := i0 + 1
    -- for j in range(nobjs-i, 0, -1): psum[i-1] = hyp(psum[i-1], p[j-1])
    let s := ((List.range (nobjs - i)).reverse).foldl (fun acc j0 => hyp acc (p.getD j0 0)) tailPart
    -- if i > 1: psum[i-1] = hyp(psum[i-1], p[nobjs-i])
    if i > 1 then hyp s (p.getD (nobjs - i) 0) else s

def rotTransform (sum : List α → α) (hyp : α → α → α) (M : List (List α)) (lam : List α) (nobjs : Nat) (x : List α) : List α × List α :=
  let cs := (M.zip lam).map fun (row, l) => rotCoord sum row l x
  (cs.map (·.1), rotPenalty hyp nobjs (cs.map (·.2)))

def rotObjectives (exp : α → α) (psum inner : List α) : List α :=
  List.zipWith (fun ps f => 2 / (1 + exp (-ps)) * (f + 1)) psum inner
end

/-- the instance the driver runs: `inner` = DTLZ2 (UF11) or DTLZ3 (UF12) with 5 objectives on the rotated point -/
def ufRot (t : Trig Float) (sum : List Float → Float) (dtlz3 : Bool) (M : List (List Float)) (lam : List Float) (nobjs : Nat) (x : List Float) : List Float :=
  let hyp (a b : Float) : Float := Float.sqrt (Float.pow a 2.0 + Float.pow b 2.0)
  let (zz, psum) := rotTransform sum hyp M lam nobjs x
  rotObjectives Float.exp psum (if dtlz3 then Platypus.dtlz3 t nobjs zz else Platypus.dtlz2 t nobjs zz)

end Platypus
