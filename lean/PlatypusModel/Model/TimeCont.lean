/-
Model of the *scheduling and decision* of adaptive time continuation (platypus/extensions.py): `FixedFrequencyExtension.start_run`
/ `post_step` with `by_nfe=False`, and `AdaptiveTimeContinuationExtension.check`.  Integers only; core Lean only.

Python → model
* `start_run`: `self.last_invocation = self.iteration`                                               → `startRun`
* `post_step`: `self.iteration += 1; if self.iteration - self.last_invocation >= self.frequency: self.do_action(algorithm);
  self.last_invocation = self.iteration`                                                             → `postStep`
* `do_action`: `if self.check(algorithm): self.restart(algorithm)`; `restart` sets `self.last_restart = self.iteration`
* `check`: `target_size = ratio * len(archive)`; `iteration - last_restart >= max_window_size` → True; `elif target_size >= min and
  target_size <= max and abs(population_size - target_size) > 0.25 * target_size` → True; else False   → `checkR`
  (the ratio is a natural number, as in `Model/Restart.lean`; `abs(p - t) > 0.25 * t` is `4 * |p - t| > t`: both sides are small
  integers or quarter-integers, exact in doubles).  `iteration - last_*` are differences of Python ints that are never negative
  (theorem `postStep_ordered`), so truncated subtraction on `Nat` is the same number.
-/
namespace Platypus

structure ExtCfg where
  window : Nat        -- frequency = window_size
  maxWindow : Nat
  ratio : Nat
  minPop : Nat
  maxPop : Nat

structure ExtState where
  iteration : Nat
  lastInvocation : Nat
  lastRestart : Nat
  deriving DecidableEq, Repr

def startRun (e : ExtState) : ExtState := { e with lastInvocation := e.iteration }

/-- `check` for a population of `p` and an archive of `a` members -/
def checkR (c : ExtCfg) (e : ExtState) (p a : Nat) : Bool :=
  let t := c.ratio * a
  if c.maxWindow ≤ e.iteration - e.lastRestart then true
  else if c.minPop ≤ t ∧ t ≤ c.maxPop ∧ t < 4 * (if t ≤ p then p - t else t - p) then true
  else false

/-- `post_step`: the new extension state, whether `check` was called, whether a restart follows -/
def postStep (c : ExtCfg) (e : ExtState) (p a : Nat) : ExtState × Bool × Bool :=
  let it := e.iteration + 1
  if c.window ≤ it - e.lastInvocation then
    let r := checkR c { e with iteration := it } p a
    ({ iteration := it, lastInvocation := it, lastRestart := if r then it else e.lastRestart }, true, r)
  else ({ e with iteration := it }, false, false)

end Platypus
