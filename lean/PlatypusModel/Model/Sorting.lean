import PlatypusModel.Model.Dominance
import PlatypusModel.Model.PyFloat
/-
Model of platypus/core.py + filters.py: nondominated_sort, crowding_distance, nondominated_sort_cmp,
truncate, nondominated_truncate, nondominated_split, nondominated_prune, unique, matches.
Core Lean only.

Python → model
* `nondominated_sort`: `while solutions: archive = Archive(); archive += solutions; rank them;
  solutions = [x for x in solutions if x not in archive]` (`in` is identity based) → `peelFronts`
  (fuel = length; a front of a non-empty list is non-empty — theorem `peel_nonempty`)
* `sorted(key=…)[:size]` is a stable sort + take → `List.mergeSort` + `take`
* `cmp_to_key(nondominated_sort_cmp)` → `sortCmp` on (rank, crowding distance)
* `crowding_distance` is modelled at `Float` only (`crowdingF`); the truncation theorems hold for any
  crowding values.
-/
namespace Platypus

section
variable {σ : Type}

/-- members of `l` that are not (by identity) in `front` -/
def removeIds (getId : σ → Nat) (front l : List σ) : List σ :=
  l.filter (fun x => !(front.any (fun y => getId y == getId x)))

/-- the successive fronts peeled by `nondominated_sort` -/
def peelFronts (cmp : σ → σ → Int) (getId : σ → Nat) : Nat → List σ → List (List σ)
  | 0, _ => []
  | _ + 1, [] => []
  | f + 1, x :: xs =>
    let front := archiveOf cmp (x :: xs)
    front :: peelFronts cmp getId f (removeIds getId front (x :: xs))

def sortFronts (cmp : σ → σ → Int) (getId : σ → Nat) (sols : List σ) : List (List σ) :=
  peelFronts cmp getId sols.length sols

/-- rank assigned to identity `i` (index of the first front containing it) -/
def rankIn (getId : σ → Nat) (fronts : List (List σ)) (i : Nat) : Option Nat :=
  fronts.findIdx? (fun fr => fr.any (fun y => getId y == i))

/-- `truncate(solutions, size, key)` for a key order given as `le` -/
def truncateBy (le : σ → σ → Bool) (l : List σ) (size : Nat) : List σ :=
  (l.mergeSort le).take size

/-- `matches(solutions, rank, key=rank_key)` -/
def matchesRank (rank : σ → Nat) (l : List σ) (r : Nat) : List σ := l.filter (fun x => rank x == r)

/-- `nondominated_split(solutions, size)` -/
def splitLoop (rank : σ → Nat) (l : List σ) (size : Nat) : Nat → Nat → List σ → List σ × List σ
  | 0, _, result => (result, [])
  | fuel + 1, r, result =>
    if result.length < size then
      let front := matchesRank rank l r
      if front.isEmpty then (result, [])
      else if result.length + front.length ≤ size then splitLoop rank l size fuel (r + 1) (result ++ front)
      else (result, front)
    else (result, [])

def nondominatedSplit (rank : σ → Nat) (l : List σ) (size : Nat) : List σ × List σ :=
  splitLoop rank l size (l.length + 1) 0 []

/-- the `while len(result)+len(remaining) > size` loop of `nondominated_prune`; `cd` recomputes the
crowding values of the remaining front (aligned list), larger is kept -/
def pruneLoop {κ : Type} (cd : List σ → List κ) (ge : κ → κ → Bool) (resLen size : Nat) :
    Nat → List σ → List σ
  | 0, rem => rem
  | fuel + 1, rem =>
    if resLen + rem.length > size then
      let keyed := rem.zip (cd rem)
      let sorted := keyed.mergeSort (fun a b => ge a.2 b.2)
      pruneLoop cd ge resLen size fuel ((sorted.take (rem.length - 1)).map (·.1))
    else rem

def nondominatedPrune {κ : Type} (rank : σ → Nat) (cd : List σ → List κ) (ge : κ → κ → Bool)
    (l : List σ) (size : Nat) : List σ :=
  let (result, remaining) := nondominatedSplit rank l size
  result ++ pruneLoop cd ge result.length size remaining.length remaining
end

/-! ### rank + crowding comparator and `nondominated_truncate` -/

structure Ranked (κ : Type) where
  id : Nat
  rank : Nat
  cd : κ

section
variable {κ : Type} [LT κ] [DecidableLT κ] [Neg κ]

/-- `nondominated_sort_cmp` -/
def sortCmp (x y : Ranked κ) : Int :=
  if x.rank == y.rank then
    if -x.cd < -y.cd then -1 else if -x.cd > -y.cd then 1 else 0
  else if x.rank < y.rank then -1 else if x.rank > y.rank then 1 else 0

/-- `nondominated_truncate(solutions, size)` -/
def nondominatedTruncate (l : List (Ranked κ)) (size : Nat) : List (Ranked κ) :=
  truncateBy (fun a b => decide (sortCmp a b ≤ 0)) l size
end

/-! ### crowding distance (Float) -/

def EPSILON : Float := Float.ofBits 0x3CB0000000000000   -- 2^-52 = sys.float_info.epsilon
def INF : Float := 1.0 / 0.0

/-- `unique(solutions)` by objective tuple, keeping first occurrences (tuple `==` is float `==`) -/
def uniqueObjs : List (Nat × List Float) → List (List Float) → List (Nat × List Float)
  | [], _ => []
  | s :: rest, seen =>
    if seen.any (fun k => k == s.2) then uniqueObjs rest seen else s :: uniqueObjs rest (s.2 :: seen)

def addCd (cds : List (Nat × Float)) (i : Nat) (f : Float → Float) : List (Nat × Float) :=
  cds.map fun (j, v) => if j == i then (j, f v) else (j, v)

/-- one objective's pass of `crowding_distance` over the `unique` solutions `u` (positions = identity) -/
def crowdingPass (u : List (Nat × List Float)) (k : Nat) (cds : List (Nat × Float)) : List (Nat × Float) :=
  let key := fun (s : Nat × List Float) => s.2.getD k 0.0
  let sorted := u.mergeSort (fun a b => decide (key a ≤ key b))
  match sorted.head?, sorted.getLast? with
  | some first, some last =>
    let minV := key first
    let maxV := key last
    let cds := addCd cds first.1 (· + INF)
    let cds := addCd cds last.1 (· + INF)
    let n := sorted.length
    (List.range (n - 2)).foldl (fun cds j0 =>
      let j := j0 + 1
      match sorted[j]?, sorted[j+1]?, sorted[j-1]? with
      | some s, some nx, some pv =>
        if maxV - minV < EPSILON then addCd cds s.1 (fun _ => INF)
        else addCd cds s.1 (· + (key nx - key pv) / (maxV - minV))
      | _, _, _ => cds) cds
  | _, _ => cds

/-- `crowding_distance(front)`: input = (position, objectives) for every member of the front (the same
object may occur only once in a front); output = crowding distance per position -/
def crowdingF (nobjs : Nat) (front : List (List Float)) : List Float :=
  let idx := (List.range front.length).zip front
  let cds0 : List (Nat × Float) := idx.map fun (i, _) => (i, 0.0)
  let u := uniqueObjs idx []
  let cds :=
    if u.length < 3 then u.foldl (fun cds s => addCd cds s.1 (fun _ => INF)) cds0
    else (List.range nobjs).foldl (fun cds k => crowdingPass u k cds) cds0
  cds.map (·.2)

end Platypus
