/-
Model of platypus/core.py: Algorithm.run with the MaxEvaluations condition, and the bookkeeping of
Algorithm.evaluate_all.  Core Lean only.

Python → model
* `condition.initialize(self)`: `starting_nfe = algorithm.nfe`          → `start`
* `while not condition(self): … self.step() …` with `shouldTerminate = nfe - starting_nfe >= N`
                                                                          → `runLoop` (fuel `N`: theorem
  `run_fuel_suffices` shows it is never exhausted when every step counts ≥ 1 evaluation)
* `evaluate_all(solutions)`: real calls = the not-yet-evaluated ones, `nfe += len(solutions)` → `evalAll`
-/
namespace Platypus

section
variable {S : Type}

/-- the `while not condition(self)` loop; returns the final state and the number of steps taken -/
def runLoop (step : S → S) (nfe : S → Nat) (N start : Nat) : Nat → S → Nat → S × Nat
  | 0, s, k => (s, k)
  | fuel + 1, s, k => if nfe s - start ≥ N then (s, k) else runLoop step nfe N start fuel (step s) (k + 1)

/-- `algorithm.run(N)` -/
def run (step : S → S) (nfe : S → Nat) (N : Nat) (s : S) : S × Nat :=
  runLoop step nfe N (nfe s) N s 0
end

/-- the same loop driven by an observed list of per-step counter increments:
`(steps taken, evaluations counted, ran out of observed steps before the budget was met)` -/
def runOnIncs (N : Nat) : List Nat → Nat → Nat → Nat × Nat × Bool
  | incs, k, done =>
    if done ≥ N then (k, done, false)
    else match incs with
      | [] => (k, done, true)
      | i :: rest => runOnIncs N rest (k + 1) (done + i)

/-- bookkeeping of one `evaluate_all(batch)`: `evaluated?` flags of the batch ↦ (real calls, counter increment) -/
def evalAll (batch : List Bool) : Nat × Nat := ((batch.filter (!·)).length, batch.length)

end Platypus
