/-
Model of platypus/_math.py: lsolve (Gaussian elimination with partial pivoting), tred2, tql2, hypot and the
use CMAES.eigendecomposition makes of them.  Core Lean only.

* `lsolve` is generic in the scalar type (a row of the augmented system is `(coefficients, right-hand side)`),
  so that its exactness is a theorem over any field and the same definition runs at `Float`.
* `tred2` / `tql2` / `hypot` are transcribed statement by statement over `Float` arrays (they are tied to the
  implementation bit for bit; their numerical convergence is not a subject of proof).  `fixedScan = true` is
  the repaired `tql2` (the sub-diagonal scan starts at `m = l`), `false` the originally pinned one (`m = 1`).
* the control skeleton of the QL iteration that the theorems talk about is `findSmall`.
-/
namespace Platypus

inductive LErr where
  | singular | zerodiv | index | unbound
  deriving Repr, DecidableEq

structure Row (α : Type) where
  a : List α
  b : α

section
variable {α : Type} [Add α] [Sub α] [Mul α] [Div α] [Neg α] [LT α] [LE α] [DecidableLT α] [DecidableLE α] [OfNat α 0]

def absL (x : α) : α := if x < 0 then -x else x

/-- position (within `rows`) of the first row whose `|a[col]|` is strictly largest:
`max = p; for i in p+1..: if abs(A[i][p]) > abs(A[max][p]): max = i` -/
def argmaxAbs (col : Nat) : List (Row α) → Nat
  | [] => 0
  | r :: rs =>
    (rs.foldl (fun (st : Nat × α × Nat) q =>
        let v := absL (q.a.getD col 0)
        if st.2.1 < v then (st.2.2, v, st.2.2 + 1) else (st.1, st.2.1, st.2.2 + 1))
      (0, absL (r.a.getD col 0), 1)).1

/-- `A[p], A[max] = A[max], A[p]` on the not yet processed rows (position 0 is row `p`) -/
def swapFront {β : Type} (k : Nat) (l : List β) : List β :=
  match l, l[k]? with
  | x :: _, some y => if k = 0 then l else (y :: (l.drop 1)).set k x
  | _, _ => l

/-- one elimination: `alpha = A[i][p] / A[p][p]; b[i] -= alpha*b[p]; A[i][j] -= alpha*A[p][j]` for `j ≥ p` -/
def eliminate (p : Nat) (piv r : Row α) : Row α :=
  let alpha := r.a.getD p 0 / piv.a.getD p 0
  { a := (r.a.zipIdx).map (fun (v, j) => if p ≤ j then v - alpha * piv.a.getD j 0 else v),
    b := r.b - alpha * piv.b }

/-- forward elimination of the rows `p, p+1, …`; returns them in upper-triangular form -/
def forwardElim (eps : α) : Nat → Nat → List (Row α) → Except LErr (List (Row α))
  | _, _, [] => .ok []
  | 0, _, _ => .error .index
  | fuel + 1, p, r :: rs =>
    match swapFront (argmaxAbs p (r :: rs)) (r :: rs) with
    | [] => .ok []
    | piv :: others =>
      if absL (piv.a.getD p 0) ≤ eps then .error .singular
      else do
        let tail ← forwardElim eps fuel (p + 1) (others.map (eliminate p piv))
        pure (piv :: tail)

/-- back substitution from the last row upwards; `acc` holds `x[i+1..]` -/
def backSub : Nat → List (Row α) → List α
  | _, [] => []
  | i, r :: rs =>
    let xs := backSub (i + 1) rs
    let sum := ((r.a.drop (i + 1)).zip xs).foldl (fun s p => s + p.1 * p.2) 0
    ((r.b - sum) / r.a.getD i 0) :: xs

/-- `lsolve(A, b)` -/
def lsolve (eps : α) (A : List (List α)) (b : List α) : Except LErr (List α) := do
  let rows := (A.zip b).map (fun p => ({ a := p.1, b := p.2 } : Row α))
  let tri ← forwardElim eps rows.length 0 rows
  pure (backSub 0 tri)

/-- the sub-diagonal scan of the QL iteration: the first index `m ≥ start` with `|e[m]| ≤ tol`
(`e[n-1] = 0` guarantees one exists) -/
def findSmall (tol : α) (e : List α) : Nat → Nat → Nat
  | 0, m => m
  | fuel + 1, m => if m < e.length then (if absL (e.getD m 0) ≤ tol then m else findSmall tol e fuel (m + 1)) else m
end

/-! ### Float transcriptions -/
namespace FL

abbrev E := Except LErr
def div (a b : Float) : E Float := if b == 0.0 then .error .zerodiv else .ok (a / b)

/-- `hypot(a, b)`; when `a = b = 0` Python leaves `r` unbound -/
def hypot (a b : Float) : E Float :=
  if a.abs > b.abs then do
    let r ← div b a
    pure (a.abs * Float.sqrt (1.0 + r * r))
  else if b != 0.0 then do
    let r ← div a b
    pure (b.abs * Float.sqrt (1.0 + r * r))
  else .error .unbound

abbrev Mat := Array (Array Float)
def mget (V : Mat) (i j : Nat) : Float := (V.getD i #[]).getD j 0.0
def mset (V : Mat) (i j : Nat) (x : Float) : Mat := V.modify i (fun r => r.set! j x)

/-- `tred2(n, V, d, e)` -/
def tred2 (n : Nat) (V0 : Mat) : E (Mat × Array Float × Array Float) := do
  let mut V := V0
  let mut d : Array Float := Array.replicate n 0.0
  let mut e : Array Float := Array.replicate n 0.0
  for j in [0:n] do
    d := d.set! j (mget V (n - 1) j)
  for ii in [0:n - 1] do
    let i := n - 1 - ii
    let mut scale := 0.0
    let mut h := 0.0
    for k in [0:i] do
      scale := scale + (d.getD k 0.0).abs
    if scale == 0.0 then
      e := e.set! i (d.getD (i - 1) 0.0)
      for j in [0:i] do
        d := d.set! j (mget V (i - 1) j)
        V := mset V j i 0.0
        V := mset V i j 0.0
    else
      for k in [0:i] do
        d := d.set! k (d.getD k 0.0 / scale)
        h := h + Float.pow (d.getD k 0.0) 2.0
      let mut f := d.getD (i - 1) 0.0
      let mut g := Float.sqrt h
      if f > 0.0 then g := -g
      e := e.set! i (scale * g)
      h := h - f * g
      d := d.set! (i - 1) (f - g)
      for j in [0:i] do
        e := e.set! j 0.0
      for j in [0:i] do
        f := d.getD j 0.0
        V := mset V j i f
        g := e.getD j 0.0 + mget V j j * f
        for k in [j + 1:i] do
          g := g + mget V k j * d.getD k 0.0
          e := e.set! k (e.getD k 0.0 + mget V k j * f)
        e := e.set! j g
      f := 0.0
      for j in [0:i] do
        let q ← div (e.getD j 0.0) h
        e := e.set! j q
        f := f + e.getD j 0.0 * d.getD j 0.0
      let hh ← div f (2.0 * h)
      for j in [0:i] do
        e := e.set! j (e.getD j 0.0 - hh * d.getD j 0.0)
      for j in [0:i] do
        f := d.getD j 0.0
        g := e.getD j 0.0
        for k in [j:i] do
          V := mset V k j (mget V k j - (f * e.getD k 0.0 + g * d.getD k 0.0))
        d := d.set! j (mget V (i - 1) j)
        V := mset V i j 0.0
    d := d.set! i h
  for i in [0:n - 1] do
    V := mset V (n - 1) i (mget V i i)
    V := mset V i i 1.0
    let h := d.getD (i + 1) 0.0
    if h != 0.0 then
      for k in [0:i + 1] do
        d := d.set! k (mget V k (i + 1) / h)
      for j in [0:i + 1] do
        let mut g := 0.0
        for k in [0:i + 1] do
          g := g + mget V k (i + 1) * mget V k j
        for k in [0:i + 1] do
          V := mset V k j (mget V k j - g * d.getD k 0.0)
    for k in [0:i + 1] do
      V := mset V k (i + 1) 0.0
  for j in [0:n] do
    d := d.set! j (mget V (n - 1) j)
    V := mset V (n - 1) j 0.0
  if n > 0 then
    V := mset V (n - 1) (n - 1) 1.0
    e := e.set! 0 0.0
  else throw .index
  pure (V, d, e)

/-- `tql2(n, d, e, V)`; `maxIter` bounds the `while True` loop (the source has no bound) -/
def tql2 (fixedScan : Bool) (n : Nat) (d0 e0 : Array Float) (V0 : Mat) (maxIter : Nat := 200) :
    E (Array Float × Mat) := do
  let mut d := d0
  let mut e := e0
  let mut V := V0
  for i in [1:n] do
    e := e.set! (i - 1) (e.getD i 0.0)
  if n == 0 then throw .index
  e := e.set! (n - 1) 0.0
  let mut f := 0.0
  let mut tst1 := 0.0
  let eps := Float.pow 2.0 (-52.0)
  for l in [0:n] do
    let t := (d.getD l 0.0).abs + (e.getD l 0.0).abs
    tst1 := if t > tst1 then t else tst1
    let mut m := if fixedScan then l else 1
    let mut found := false
    for _ in [0:n + 1] do
      if !found then
        if m < n then
          if (e.getD m 0.0).abs <= eps * tst1 then found := true else m := m + 1
        else found := true
    if m > l then
      let mut fin := false
      for _ in [0:maxIter] do
        if !fin then
          if l + 1 ≥ n then throw .index
          let g0 := d.getD l 0.0
          let mut p ← div (d.getD (l + 1) 0.0 - g0) (2.0 * e.getD l 0.0)
          let mut r ← hypot p 1.0
          if p < 0.0 then r := -r
          let q ← div (e.getD l 0.0) (p + r)
          d := d.set! l q
          d := d.set! (l + 1) (e.getD l 0.0 * (p + r))
          let dl1 := d.getD (l + 1) 0.0
          let mut h := g0 - d.getD l 0.0
          for i in [l + 2:n] do
            d := d.set! i (d.getD i 0.0 - h)
          f := f + h
          if m ≥ n then throw .index
          p := d.getD m 0.0
          let mut c := 1.0
          let mut c2 := c
          let mut c3 := c
          let el1 := e.getD (l + 1) 0.0
          let mut s := 0.0
          let mut s2 := 0.0
          for ii in [0:m - l] do
            let i := m - 1 - ii
            c3 := c2
            c2 := c
            s2 := s
            let g := c * e.getD i 0.0
            h := c * p
            r ← hypot p (e.getD i 0.0)
            e := e.set! (i + 1) (s * r)
            s ← div (e.getD i 0.0) r
            c ← div p r
            p := c * d.getD i 0.0 - s * g
            d := d.set! (i + 1) (h + s * (c * g + s * d.getD i 0.0))
            for k in [0:n] do
              h := mget V k (i + 1)
              V := mset V k (i + 1) (s * mget V k i + c * h)
              V := mset V k i (c * mget V k i - s * h)
          p ← div (-s * s2 * c3 * el1 * e.getD l 0.0) dl1
          e := e.set! l (s * p)
          d := d.set! l (c * p)
          if (e.getD l 0.0).abs <= eps * tst1 then fin := true
      if !fin then throw .index        -- did not converge within maxIter (the source would loop on)
    d := d.set! l (d.getD l 0.0 + f)
    e := e.set! l 0.0
  for i in [0:n - 1] do
    let mut k := i
    let mut p := d.getD i 0.0
    for j in [i + 1:n] do
      if d.getD j 0.0 < p then
        k := j
        p := d.getD j 0.0
    if k != i then
      d := d.set! k (d.getD i 0.0)
      d := d.set! i p
      for j in [0:n] do
        let t := mget V j i
        V := mset V j i (mget V j k)
        V := mset V j k t
  pure (d, V)

/-- what `CMAES.eigendecomposition` does with a symmetric `C`: symmetrise from the lower triangle,
`tred2`, `tql2` → (eigenvalues ascending, eigenvectors as columns) -/
def eigen (fixedScan : Bool) (n : Nat) (C : Mat) : E (Array Float × Mat) := do
  let mut B : Mat := Array.replicate n (Array.replicate n 0.0)
  for i in [0:n] do
    for j in [0:i + 1] do
      B := mset B i j (mget C i j)
      B := mset B j i (mget C i j)
  let (V, d, e) ← tred2 n B
  tql2 fixedScan n d e V

end FL

end Platypus
