import Driver.Wire
import Driver.Ops
/-! Line-protocol driver: one request per line, one response per line. -/

def respond (line : String) : String :=
  match (line.splitOn " ").filter (· ≠ "") with
  | [] => "bad-op"
  | op :: args =>
    match Ops.dispatch op args with
    | .ok s => s
    | .error e => e

partial def loop (hin : IO.FS.Stream) (hout : IO.FS.Stream) : IO Unit := do
  let line ← hin.getLine
  if line.isEmpty then return ()
  let l := (line.dropEndWhile (fun c => c == '\n' || c == '\r')).toString
  hout.putStrLn (respond l)
  loop hin hout

def main : IO Unit := do
  let hin ← IO.getStdin
  let hout ← IO.getStdout
  loop hin hout
  hout.flush
