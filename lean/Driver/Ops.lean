import Driver.Wire
import Driver.OpsOperators
import PlatypusModel.Model.Gray
import PlatypusModel.Model.Dominance
import PlatypusModel.Model.Constraint
import PlatypusModel.Model.PyFloat
import PlatypusModel.Model.Epsilon
import PlatypusModel.Model.Sorting
import PlatypusModel.Model.Crowding
import PlatypusModel.Model.Grid
import PlatypusModel.Model.Run
import PlatypusModel.Model.GenStep
import PlatypusModel.Model.Restart
import PlatypusModel.Model.TimeCont
import PlatypusModel.Model.HVFit
import PlatypusModel.Model.Survival
import PlatypusModel.Model.SPEA2
import PlatypusModel.Model.NSGA3
import PlatypusModel.Model.Machine
import PlatypusModel.Model.Parallel
import PlatypusModel.Model.Indicators
import PlatypusModel.Model.LinAlg
import PlatypusModel.Model.Codec
import PlatypusModel.Model.Problems
import PlatypusModel.Model.Directions
import PlatypusModel.Model.WFG
import PlatypusModel.Model.UFRot
import PlatypusModel.Model.UF
import PlatypusModel.Model.CF
open Wire Platypus

namespace Ops

def opsGray (op : String) : Option (P String) :=
  match op with
  | "int2bin" => some do let n ← nat; let k ← nat; pure (showBits (int2bin n k))
  | "bin2int" => some do let b ← bits; pure (toString (bin2int b))
  | "bin2gray" => some do let b ← bits; pure (showBits (bin2gray b))
  | "gray2bin" => some do
      let b ← bits
      pure (match gray2bin b with | some r => showBits r | none => "err:index")
  | "nbits" => some do
      let w ← nat
      pure (match nbits? w with | some r => toString r | none => "err:domain")
  | "encode" => some do let w ← nat; let v ← nat; pure (showBits (encode w v))
  | "decode" => some do
      let w ← nat; let b ← bits
      pure (match decode w b with | some r => toString r | none => "err:index")
  | _ => none

/-- per-element trace of an insertion history: `flag:ids` after every add -/
def archiveTrace {σ} (cmp : σ → σ → Int) (getId : σ → Nat) (init : List σ) (xs : List σ) : String :=
  let step := fun (st : List σ × List String) (s : σ) =>
    let r := archiveAdd cmp st.1 s
    (r.1, s!"{if r.2 then 1 else 0}:{showIds (r.1.map getId)}" :: st.2)
  let (_, out) := xs.foldl step (init, [])
  if out.isEmpty then "-" else " ".intercalate out.reverse

def opsDominance (op : String) : Option (P String) :=
  match op with
  | "pareto" => some do
      let c ← bool; let dirs ← list bool; let a ← solE; let b ← solE
      pure (toString (paretoCompare c dirs a b))
  | "archive" => some do
      let c ← bool; let dirs ← list bool; let xs ← list solE
      pure (archiveTrace (paretoCompare c dirs) (·.id) [] xs)
  | _ => none

def hexVal (c : Char) : Option Nat :=
  if '0' ≤ c && c ≤ '9' then some (c.toNat - '0'.toNat)
  else if 'a' ≤ c && c ≤ 'f' then some (c.toNat - 'a'.toNat + 10) else none

/-- characters as a '.'-separated list of hexadecimal code points ("-" = empty) -/
def chars : P (List Char) := do
  let t ← tok
  if t == "-" then pure [] else
  (t.splitOn ".").mapM fun h =>
    match h.toList.foldlM (fun acc c => (hexVal c).map (acc * 16 + ·)) 0 with
    | some n => pure (Char.ofNat n)
    | none => throw "bad-op"

def showChars (l : List Char) : String :=
  if l.isEmpty then "-" else ".".intercalate (l.map fun c => String.ofList (Nat.toDigits 16 c.toNat))

def opTok : P Op := do
  match Op.ofChars? (← tok).toList with
  | some o => pure o
  | none => throw "bad-op"

def canonZero (x : Float) : Float := if x == 0.0 then 0.0 else x

def opsConstraint (op : String) : Option (P String) :=
  match op with
  | "cparse" => some do
      let cs ← chars
      pure (match parseChars (fun t => some t) cs with
        | .ok o t => s!"ok {o.toString} {showChars t}"
        | .error => "error")
  | "violF" => some do
      let o ← opTok; let d ← flt; let x ← flt; let y ← flt
      pure (showFlt (canonZero (o.viol d x y)))
  | "violQ" => some do
      let o ← opTok; let d ← rat; let x ← rat; let y ← rat
      pure (showRat (o.viol d x y))
  | "totalF" => some do
      let d ← flt
      let items ← list (do let o ← opTok; let y ← flt; let x ← flt; let isInt ← bool; pure (o, y, x, isInt))
      let vs := items.map fun (o, y, x, isInt) =>
        let v := pyAbs (o.viol d x y)
        if isInt then PyItem.int v.toInt64.toInt else PyItem.flt v
      let tot := (pySum vs).toFloat
      pure s!"{showFlt (canonZero tot)} {if tot == 0.0 then 1 else 0}"
  | "totalQ" => some do
      let d ← rat
      let cs ← list (do let o ← opTok; let y ← rat; pure (o, y))
      let xs ← list rat
      pure s!"{showRat (totalViolation d cs xs)} {if feasible d cs xs then 1 else 0}"
  | _ => none

/-- `id cv n o1 … on` on the Float wire -/
def solF : P (Sol Float) := do
  let id ← nat; let cv ← flt; let objs ← list flt
  pure { id := id, objs := objs, cv := cv }

def solQ : P (Sol Rat) := do
  let id ← nat; let cv ← rat; let objs ← list rat
  pure { id := id, objs := objs, cv := cv }

def flF (x : Float) : Float := x.floor
def sqF (x : Float) : Float := Float.pow x 2.0
def flQ (x : Rat) : Rat := (x.floor : Int)
def sqQ (x : Rat) : Rat := x * x

/-- Python raises before producing an answer: empty epsilon list (IndexError), zero epsilon
(ZeroDivisionError), non-finite quotient (OverflowError / ValueError in math.floor) -/
def epsGuardF (dirs : List Bool) (eps : List Float) (sols : List (Sol Float)) : Option String :=
  if dirs.isEmpty then none
  else if eps.isEmpty then some "err:index"
  else
    let es := (List.range dirs.length).map fun i => eps.getD i (eps.getLast?.getD 0.0)
    let bad := sols.any fun s => (List.zip es s.objs).any fun (e, o) => e == 0.0
    let bad2 := sols.any fun s => (List.zip es s.objs).any fun (e, o) => !(o / e).isFinite
    if bad then some "err:zerodiv" else if bad2 then some "err:domain" else none

def epsTrace {σ} (cmp : σ → σ → Int) (same : σ → σ → Bool) (getId : σ → Nat) (xs : List σ) : String :=
  let step := fun (st : (List σ × Nat) × List String) (s : σ) =>
    let r := epsArchiveAdd cmp same st.1 s
    (r.1, s!"{if r.2 then 1 else 0}:{showIds (r.1.1.map getId)}:{r.1.2}" :: st.2)
  let (_, out) := xs.foldl step (([], 0), [])
  if out.isEmpty then "-" else " ".intercalate out.reverse

def opsEps (op : String) : Option (P String) :=
  match op with
  | "epsF" => some do
      let c ← bool; let dirs ← list bool; let eps ← list flt; let a ← solF; let b ← solF
      match epsGuardF dirs eps [a, b] with
      | some e => pure e
      | none => pure s!"{epsCompareP flF sqF c dirs eps a b} {if sameBox flF c dirs eps a b then 1 else 0}"
  | "epsQ" => some do
      let c ← bool; let dirs ← list bool; let eps ← list rat; let a ← solQ; let b ← solQ
      pure s!"{epsCompareP flQ sqQ c dirs eps a b} {if sameBox flQ c dirs eps a b then 1 else 0}"
  | "epsArchF" => some do
      let c ← bool; let dirs ← list bool; let eps ← list flt; let xs ← list solF
      match epsGuardF dirs eps xs with
      | some e => pure e
      | none => pure (epsTrace (epsCompareP flF sqF c dirs eps) (sameBox flF c dirs eps) (·.id) xs)
  | "epsArchQ" => some do
      let c ← bool; let dirs ← list bool; let eps ← list rat; let xs ← list solQ
      pure (epsTrace (epsCompareP flQ sqQ c dirs eps) (sameBox flQ c dirs eps) (·.id) xs)
  | "archiveEpsF" => some do   -- plain Archive with the ε comparator (OMOPSO / CMA-ES style)
      let c ← bool; let dirs ← list bool; let eps ← list flt; let xs ← list solF
      match epsGuardF dirs eps xs with
      | some e => pure e
      | none => pure (archiveTrace (epsCompareP flF sqF c dirs eps) (·.id) [] xs)
  | _ => none

structure RS where
  id : Nat
  rank : Nat
  objs : List Float

def showNats (l : List Nat) : String := if l.isEmpty then "-" else " ".intercalate (l.map toString)

def opsSorting (op : String) : Option (P String) :=
  match op with
  | "nsort" => some do
      let c ← bool; let dirs ← list bool; let xs ← list solE
      let fronts := sortFronts (paretoCompare c dirs) (·.id) xs
      pure (" ".intercalate ("r" :: xs.map fun x =>
        match rankIn (·.id) fronts x.id with | some r => toString r | none => "none"))
  | "crowdF" => some do
      let nobjs ← nat; let front ← list (list flt)
      pure (" ".intercalate ("c" :: (crowdingF nobjs front).map showFlt))
  | "hvfit" => some do
      -- HypervolumeFitnessEvaluator.hypervolume(solution1, solution2 | None, d) at Float
      let rho ← flt; let maxs ← list bool; let n1 ← list flt; let has2 ← nat; let n2 ← list flt; let d ← nat
      let f1 : Nat → Float := fun i => n1.getD i 0.0
      let f2 : Option (Nat → Float) := if has2 = 0 then none else some fun i => n2.getD i 0.0
      pure (showFlt (hvFit rho (fun i => maxs.getD i false) f1 f2 d))
  | "crowdG" => some do
      -- the generic crowding model at Float (`none` shown as +inf)
      let nobjs ← nat; let front ← list (list flt)
      pure (" ".intercalate ("c" :: (crowdingGF nobjs front).map showFlt))
  | "crowdQ" => some do
      -- the generic crowding model at Rat; eps = 2^-52; "inf" for +infinity
      let nobjs ← nat; let front ← list (list rat)
      pure (" ".intercalate ("c" :: (crowdingG (mkRat 1 4503599627370496) nobjs front).map fun | none => "inf" | some q => showRat q))
  | "ntrunc" => some do
      let xs ← list (do let id ← nat; let r ← nat; let cd ← flt; pure ({ id := id, rank := r, cd := cd } : Ranked Float))
      let k ← nat
      pure ("t " ++ showNats ((nondominatedTruncate xs k).map (·.id)))
  | "nsplit" => some do
      let xs ← list (do let id ← nat; let r ← nat; pure (id, r))
      let k ← nat
      let (a, b) := nondominatedSplit (·.2) xs k
      pure s!"s {showNats (a.map (·.1))} | {showNats (b.map (·.1))}"
  | "nprune" => some do
      let nobjs ← nat
      let xs ← list (do let id ← nat; let r ← nat; let o ← list flt; pure ({ id := id, rank := r, objs := o } : RS))
      let k ← nat
      let res := nondominatedPrune (·.rank) (fun rem => crowdingF nobjs (rem.map (·.objs))) (fun a b => a >= b) xs k
      pure ("p " ++ showNats (res.map (·.id)))
  | _ => none

def boundsF (nobjs : Nat) (contents : List (Sol Float)) : List Float × List Float :=
  let lo := (List.range nobjs).map fun i => contents.foldl (fun m s => pyMin m (s.objs.getD i 0.0)) INF
  let hi := (List.range nobjs).map fun i => contents.foldl (fun m s => pyMax m (s.objs.getD i 0.0)) (-INF)
  (lo, hi)

def gridCfgF (capacity nobjs divisions : Nat) (fixed c : Bool) (dirs : List Bool) :
    GridCfg (Sol Float) (List Float × List Float) :=
  { cmp := paretoCompare c dirs, getId := (·.id), mkBounds := boundsF nobjs,
    cell := fun b s => findIndex Float.ofNat (fun x => x.toUInt64.toNat) divisions b.1 b.2 (s.objs.take nobjs),
    ncells := divisions ^ nobjs, capacity := capacity, adaptOnEvict := fixed }

def showGrid (g : GridArchive (Sol Float) (List Float × List Float)) (flag : Bool) : String :=
  s!"{if flag then 1 else 0}:{showIds (g.contents.map (·.id))}:{",".intercalate (g.bounds.1.map showFlt)}:{",".intercalate (g.bounds.2.map showFlt)}:{",".intercalate (g.density.map toString)}"

def opsGrid (op : String) : Option (P String) :=
  match op with
  | "gridF" => some do
      let capacity ← nat; let nobjs ← nat; let divisions ← nat; let fixed ← bool
      let c ← bool; let dirs ← list bool; let xs ← list solF
      let cfg := gridCfgF capacity nobjs divisions fixed c dirs
      let (_, out) := xs.foldl (fun (st : GridArchive (Sol Float) (List Float × List Float) × List String) s =>
        let r := gridAdd cfg st.1 s
        (r.1, showGrid r.1 r.2 :: st.2)) (gridInit cfg, [])
      pure (if out.isEmpty then "-" else " ".intercalate out.reverse)
  | _ => none

def opsRun (op : String) : Option (P String) :=
  match op with
  | "runinc" => some do
      let n ← nat; let incs ← list nat
      let (k, tot, ex) := runOnIncs n incs 0 0
      pure s!"{k} {tot} {if ex then 1 else 0}"
  | "runmodel" => some do   -- the model's own run over a constant step size
      let n ← nat; let stepSize ← nat; let start ← nat
      let (fin, k) := run (fun x => x + stepSize) id n start
      pure s!"{k} {fin}"
  | "genrun" => some do   -- the generational step model over the offspring counts of a whole run: state after each step
      let style ← nat; let popSize ← nat; let offSize ← nat; let steps ← nat; let counts ← list nat
      let st : GenStyle := match style with | 0 => .whileMerge | 1 => .whileFittest | 2 => .callsMerge | 3 => .oneCallKeep | 4 => .popCallsMerge | 5 => .popCallsKeep | 6 => .whileReplace | 7 => .oneCallOne | _ => .fixed
      let c : GenCfg := { style := st, popSize := popSize, offSize := offSize }
      let sizes : Nat → Nat := fun i => counts.getD i 1
      let rec go : Nat → GenState → List String → List String
        | 0, _, acc => acc.reverse
        | k + 1, s, acc => let s' := genStep c sizes s; go k s' (s!"{s'.nfe}:{s'.pos}:{s'.pop}" :: acc)
      pure (" ".intercalate (go steps { nfe := 0, pos := 0, pop := 0 } []))
  | "erun" => some do   -- NSGA-II / eps-NSGA-II with adaptive time continuation (Model/Restart.lean): state after every run-loop iteration
      let popSize ← nat; let ratio ← nat; let minP ← nat; let maxP ← nat; let counts ← list nat; let mcounts ← list nat; let archs ← list nat
      let c : RCfg := { ratio := ratio, minPop := minP, maxPop := maxP }
      let sizes : Nat → Nat := fun i => counts.getD i 1
      let msizes : Nat → Nat := fun i => mcounts.getD i 1
      let rec goR : List Nat → RState → List String → List String
        | [], _, acc => acc.reverse
        | a :: rest, s, acc =>
          let s' := rStep c sizes msizes (if a = 0 then none else some (a - 1)) s
          goR rest s' (s!"{s'.nfe}:{s'.pos}:{s'.mpos}:{s'.pop}:{s'.popSize}" :: acc)
      pure (" ".intercalate (goR archs { nfe := 0, pos := 0, mpos := 0, pop := 0, popSize := popSize } []))
  | "tcont" => some do   -- scheduling + decision of adaptive time continuation (Model/TimeCont.lean): per iteration "checked restart"
      let window ← nat; let maxW ← nat; let ratio ← nat; let minP ← nat; let maxP ← nat; let evs ← list nat
      let c : ExtCfg := { window := window, maxWindow := maxW, ratio := ratio, minPop := minP, maxPop := maxP }
      let rec goT : List Nat → ExtState → List String → List String
        | flag :: p :: a :: rest, e, acc =>
          let e0 := if flag = 1 then startRun e else e
          let r := postStep c e0 p a
          goT rest r.1 (s!"{if r.2.1 then 1 else 0}{if r.2.2 then 1 else 0}" :: acc)
        | _, e, acc => (s!"{e.iteration}:{e.lastInvocation}:{e.lastRestart}" :: acc).reverse
      pure (" ".intercalate (goT evs { iteration := 0, lastInvocation := 0, lastRestart := 0 } []))
  | "evalall" => some do
      let flags ← list bool
      let (calls, inc) := evalAll flags
      pure s!"{calls} {inc}"
  | _ => none

def opsSurvival (op : String) : Option (P String) :=
  match op with
  | "nsga2" => some do
      let c ← bool; let dirs ← list bool; let n ← nat; let merged ← list solF
      pure ("v " ++ showNats (nsga2Survival c dirs merged n))
  | "gaes" => some do
      -- GeneticAlgorithm / EvolutionaryStrategy: sorted(merged, key=cmp_to_key(comparator))[:N]
      let c ← bool; let dirs ← list bool; let n ← nat; let merged ← list solF
      pure ("v " ++ showNats ((truncateBy (fun a b => paretoCompare c dirs a b ≤ 0) merged n).map (·.id)))
  | "spea2" => some do
      let c ← bool; let dirs ← list bool; let n ← nat; let k ← nat; let merged ← list solF
      pure (match spea2Survival c dirs k merged n with
        | some ids => "v " ++ showNats ids
        | none => "err:index")
  | "nsga3" => some do
      -- NSGAIII._reference_point_truncate on a rank-annotated merged population
      let c ← bool; let dirs ← list bool; let n ← nat
      let ideal ← list flt; let refs ← list (list flt); let merged ← list solF
      let tape ← list (do let a ← nat; let b ← nat; pure (a, b))
      pure (match nsga3Truncate c dirs ideal refs merged n tape with
        | none => "err:zerodiv"
        | some (.error .tape) => "err:tape"
        | some (.error .index) => "err:index"
        | some (.error .fuel) => "err:fuel"
        | some (.ok (ids, ideal', rest)) => s!"v {showNats ids} | {showList showFlt ideal'} | {rest.length}")
  | "gde3" => some do
      let c ← bool; let dirs ← list bool; let n ← nat; let off ← list solF; let pop ← list solF
      pure ("v " ++ showNats (gde3Survival c dirs off pop n))
  | _ => none

def vtype : P VType := do
  match (← tok) with
  | "r" => do let lo ← flt; let hi ← flt; pure (.real lo hi)
  | "i" => do let lo ← int; let hi ← int; pure (.int lo hi)
  | "b" => do let n ← nat; pure (.binary n)
  | "p" => do let n ← nat; pure (.perm n)
  | "s" => do let n ← nat; let k ← nat; pure (.subset n k)
  | _ => throw "bad-op"

/-- one decoded variable; "X" = undecodable / wrong shape -/
def valOf (t : VType) : P Val := do
  let st ← get
  match st with
  | "X" :: ts => set ts; pure Val.bad
  | _ =>
    match t with
    | .real _ _ => do let b ← nat; pure (.real b)
    | .int _ _ => do let v ← int; pure (.int v)
    | .binary _ => do let b ← bits; pure (.bits b)
    | .perm _ => do let e ← list nat; pure (.elems e)
    | .subset _ _ => do let e ← list nat; pure (.elems e)

def snapOf (types : List VType) : P Snap := do
  let id ← nat; let ev ← bool; let hf ← bool; let fe ← bool; let cv ← nat
  let objs ← list nat; let cons ← list nat
  let nv ← nat
  let vals ← if nv == types.length then types.mapM valOf else (List.range nv).mapM (fun _ => do let _ ← tok; pure Val.bad)
  pure { id := id, vals := vals, record := { objs := objs, cons := cons, cv := cv, feasible := fe }, hasFeasible := hf, evaluated := ev }

def eventOf (types : List VType) : P Event := do
  match (← tok) with
  | "B" => do
      let m ← nat
      let before ← (List.range m).mapM (fun _ => snapOf types)
      let after ← (List.range m).mapM (fun _ => snapOf types)
      pure (.batch before after)
  | "S" => do let ex ← list (snapOf types); pure (.step ex)
  | _ => throw "bad-op"

def worldOf : P World := do
  let types ← list vtype
  let quad ← bool
  let w ← list (list int)
  let cw ← list (do let r ← list int; let t ← flt; pure (r, t))
  let cons ← list (do let o ← opTok; let y ← flt; pure (o, y))
  let delta ← flt
  pure { types := types, call := weightedCall quad w cw cons delta }

def firstReject (w : World) : List Event → Known → Nat → String
  | [], _, _ => "ok"
  | .batch b a :: rest, k, i =>
    match checkBatch w b a k with
    | .error e => s!"reject {repr e} {i}"
    | .ok k' => firstReject w rest k' (i + 1)
  | .step ex :: rest, k, i =>
    match checkExposed k ex with
    | .error e => s!"reject {repr e} {i}"
    | .ok _ => firstReject w rest k (i + 1)

def opsMachine (op : String) : Option (P String) :=
  match op with
  | "machine" => some do
      let w ← worldOf
      let evs ← list (eventOf w.types)
      match accept w evs with
      | .ok _ => pure "ok"
      | .error _ => pure (firstReject w evs [] 0)
  | "pcall" => some do      -- model of Problem.__call__ on one decoded argument
      let w ← worldOf
      let vals ← w.types.mapM valOf
      let r := w.call vals
      pure s!"{showList toString r.objs} {showList toString r.cons} {r.cv} {if r.feasible then 1 else 0} {if validVals w.types vals then 1 else 0}"
  | _ => none

def opsParallel (op : String) : Option (P String) :=
  match op with
  | "chunks" => some do
      let n ← int; let k ← nat
      pure ("k " ++ showNats ((chunks n (List.range k)).map (·.length)))
  | "futures" => some do
      let k ← nat; let order ← list nat
      let r := collect (completeAll (fun (j : Nat) => 3 * j + 1) (List.range k) order)
      pure (match r with | some l => "f " ++ showNats l | none => "incomplete")
  | "mpi" => some do
      let size ← nat; let lb ← bool; let ntasks ← nat
      let acts ← list (do
        match (← tok) with
        | "w" => do let w ← nat; pure (Action.worker w)
        | "m" => do let w ← nat; pure (Action.master w)
        | _ => throw "bad-op")
      let tasks := List.range ntasks
      let f := fun (t : Nat) => 3 * t + 1
      let rec go (c : MCfg Nat Nat) (as : List Action) (i : Nat) : String :=
        match as with
        | [] => s!"{repr c.phase} " ++ " ".intercalate (c.results.map fun | some r => toString r | none => "_")
        | a :: rest => match mpiStep f size tasks c a with
          | some c' => go c' rest (i + 1)
          | none => s!"not-enabled {i}"
      pure (go (mpiInit size lb tasks) acts 0)
  | "filing" => some do
      let jobs ← list (do let a ← tok; let p ← tok; let r ← nat; pure ({ algorithm := a, problem := p, result := r } : JobResult Nat))
      pure ("g " ++ " ".intercalate ((fileResults jobs).flatMap fun (a, ps) => ps.map fun (p, rs) => s!"{a}/{p}:{showIds rs}"))
  | _ => none

def isolF : P (ISol Float) := do let cv ← flt; let o ← list flt; pure { objs := o, cv := cv }
def isolQ : P (ISol Rat) := do let cv ← rat; let o ← list rat; pure { objs := o, cv := cv }

def opsFloat : NumOps Float :=
  { sum := pySumF, sqrt := Float.sqrt, pow := Float.pow, eps := EPSILON, inf := INF }
def opsRat : NumOps Rat :=
  { sum := fun l => l.foldl (· + ·) 0, sqrt := id, pow := fun x _ => x, eps := mkRat 1 4503599627370496, inf := 0 }

def showIErr : IErr → String
  | .emptyRange => "err:platypus" | .noFeasible => "err:refset" | .zerodiv => "err:zerodiv" | .index => "err:index"

def showEF (r : Except IErr Float) : String := match r with | .ok v => showFlt v | .error e => showIErr e
def showEQ (r : Except IErr Rat) : String := match r with | .ok v => showRat v | .error e => showIErr e

def opsIndicators (op : String) : Option (P String) :=
  match op with
  | "hvF" => some do
      let fixed ← bool; let dirs ← list bool; let mn ← list flt; let mx ← list flt; let set ← list isolF
      pure (showEF (hypervolume EPSILON fixed dirs mn mx set))
  | "hvQ" => some do
      let fixed ← bool; let dirs ← list bool; let mn ← list rat; let mx ← list rat; let set ← list isolQ
      pure (showEQ (hypervolume opsRat.eps fixed dirs mn mx set))
  | "hvrefF" => some do
      let fixed ← bool; let dirs ← list bool; let ref ← list isolF; let set ← list isolF
      pure (showEF (do
        let ((mn, mx), _) ← refNormalize opsFloat dirs.length ref
        hypervolume EPSILON fixed dirs mn mx set))
  | "gdF" => some do
      let nobjs ← nat; let d ← flt; let ref ← list isolF; let set ← list isolF
      pure (showEF (generationalDistance opsFloat nobjs d ref set))
  | "igdF" => some do
      let nobjs ← nat; let d ← flt; let ref ← list isolF; let set ← list isolF
      pure (showEF (invertedGenerationalDistance opsFloat nobjs d ref set))
  | "epsiF" => some do
      let fixed ← bool; let dirs ← list bool; let ref ← list isolF; let set ← list isolF
      pure (showEF (epsilonIndicator opsFloat fixed dirs dirs.length ref set))
  | "epsiQ" => some do
      let fixed ← bool; let dirs ← list bool; let ref ← list isolQ; let set ← list isolQ
      pure (showEQ (epsilonIndicator opsRat fixed dirs dirs.length ref set))
  | "spacingF" => some do
      let set ← list isolF
      pure (showFlt (spacing opsFloat set))
  | _ => none

def showLErr : LErr → String
  | .singular => "err:singular" | .zerodiv => "err:zerodiv" | .index => "err:index" | .unbound => "err:unbound"

def opsLinAlg (op : String) : Option (P String) :=
  match op with
  | "lsolveF" => some do
      let A ← list (list flt); let b ← list flt
      pure (match lsolve EPSILON A b with
        | .ok x => "x " ++ " ".intercalate (x.map showFlt)
        | .error e => showLErr e)
  | "lsolveQ" => some do
      let A ← list (list rat); let b ← list rat
      pure (match lsolve (mkRat 1 4503599627370496) A b with
        | .ok x => "x " ++ " ".intercalate (x.map showRat)
        | .error e => showLErr e)
  | "eigenF" => some do
      let fixed ← bool; let C ← list (list flt)
      let n := C.length
      pure (match FL.eigen fixed n (C.map List.toArray).toArray with
        | .ok (d, V) => "d " ++ " ".intercalate (d.toList.map showFlt) ++ " V " ++
            " ".intercalate (V.toList.flatMap fun r => r.toList.map showFlt)
        | .error e => showLErr e)
  | _ => none

partial def jval : P J := do
  match (← tok) with
  | "N" => pure .null
  | "T" => pure (.bool true)
  | "F" => pure (.bool false)
  | "I" => do let i ← int; pure (.int i)
  | "D" => do let b ← nat; pure (.num b)
  | "S" => do let c ← chars; pure (.str (String.ofList c))
  | "L" => do let n ← nat; let l ← (List.range n).mapM (fun _ => jval); pure (.arr l)
  | "O" => do
      let n ← nat
      let kv ← (List.range n).mapM (fun _ => do let k ← chars; let v ← jval; pure (String.ofList k, v))
      pure (.obj kv)
  | _ => throw "bad-op"

partial def showJ : J → String
  | .null => "N" | .bool true => "T" | .bool false => "F" | .int i => s!"I{i}" | .num b => s!"D{b}"
  | .str s => "S" ++ showChars s.toList
  | .arr l => "[" ++ ",".intercalate (l.map showJ) ++ "]"
  | .obj kv => "{" ++ ",".intercalate (kv.map fun (k, v) => showChars k.toList ++ ":" ++ showJ v) ++ "}"

def showPDesc (p : PDesc) : String :=
  s!"{p.nvars},{p.nobjs},{p.nconstrs},{String.ofList (p.dirs.map fun d => if d then '1' else '0')}," ++
    "/".intercalate (p.cons.map fun (o, y) => o.toString ++ showFlt y)

def showDSol (s : DSol) : String :=
  s!"vars={showJ (.arr s.vars)};objs={showJ (.arr s.objs)};cons={showJ (.arr s.cons)};cv={showFlt s.cv};f={if s.feasible then 1 else 0};p={showPDesc s.problem}"

def opsCodec (op : String) : Option (P String) :=
  match op with
  | "jdecode" => some do
      let fixed ← bool
      let table ← list (do let k ← chars; let o ← opTok; let y ← flt; pure (String.ofList k, o, y))
      let parseCons := fun (s : String) => (table.find? (·.1 == s)).map (fun t => (t.2.1, t.2.2))
      let supplied ← do
        match (← tok) with
        | "P0" => pure none
        | "P1" => do
            let nv ← nat; let no ← nat; let nc ← nat; let dirs ← list bool
            let cons ← list (do let o ← opTok; let y ← flt; pure (o, y))
            pure (some ({ nvars := nv, nobjs := no, nconstrs := nc, dirs := dirs, cons := cons, inferred := false } : PDesc))
        | _ => throw "bad-op"
      let j ← jval
      let (v, st) := decodeJ fixed parseCons j { problem := supplied }
      let sols := match v with
        | V.arr l => l.filterMap fun (x : V) => match x with | V.sol s => some s | _ => none
        | _ => []
      let pd := match st.problem with | some p => showPDesc p | none => "none"
      pure (s!"{sols.length} " ++ " ".intercalate (sols.map showDSol) ++ s!" final={pd}")
  | _ => none

def trigF : Trig Float :=
  { cos := Float.cos, sin := Float.sin, sqrt := Float.sqrt, exp := Float.exp, pow := Float.pow,
    pi := 3.141592653589793, ofNat := Float.ofNat }

def showFs (l : List Float) : String := " ".intercalate (l.map showFlt)

def pvP : Nat → P PV
  | 0 => throw "bad-op"
  | fuel + 1 => do
      match (← tok) with
      | "s" => do let b ← nat; pure (.scalar b)
      | "l" => do let l ← list (pvP fuel); pure (.list l)
      | _ => throw "bad-op"

partial def showPV : PV → String
  | .scalar b => s!"s{b}"
  | .list l => "[" ++ ",".intercalate (l.map showPV) ++ "]"

def datomP : P DAtom := do
  match (← tok) with
  | "D" => do let b ← bool; pure (.dir b)
  | "I" => do let i ← int; pure (.int i)
  | "T" => do let cs ← chars; pure (.str cs)
  | _ => throw "bad-op"

def dargP : P DArg := do
  match (← tok) with
  | "A" => do let a ← datomP; pure (.atom a)
  | "S" => do let l ← list datomP; pure (.seq l)
  | _ => throw "bad-op"

def showSlot : Slot → String
  | .d b => if b then "d1" else "d0"
  | .l bs => "l" ++ String.ofList (bs.map fun b => if b then '1' else '0')

def opsProblems (op : String) : Option (P String) :=
  match op with
  | "clipF" => some do
      let v ← flt; let lo ← flt; let hi ← flt
      pure ("c " ++ showFlt (pyClip v lo hi))
  | "dirops" => some do
      let n ← nat
      let ops ← list (do
        match (← tok) with
        | "i" => do let i ← nat; let v ← dargP; pure (Sel.idx i, v)
        | "s" => do let a ← nat; let b ← nat; let v ← dargP; pure (Sel.slice a b, v)
        | _ => throw "bad-op")
      pure (match dirRun (List.replicate n (Slot.d false)) ops with
        | some d => "ok " ++ " ".intercalate (d.map showSlot)
        | none => "err")
  | "fla" => some do
      let data ← list (pvP 4); let start ← nat; let stop ← nat; let v ← pvP 4
      pure ("a " ++ " ".intercalate ((sliceAssign data start stop v).map showPV))
  | "zdt" => some do
      let k ← nat; let x ← list flt
      pure ("o " ++ showFs (match k with
        | 1 => zdt1 trigF x | 2 => zdt2 trigF x | 3 => zdt3 trigF x | 4 => zdt4 trigF x | _ => zdt6 trigF x))
  | "zdt5" => some do
      let x ← list bits
      let (f1, g, d) := zdt5 x
      pure s!"o {f1} {g} {d}"
  | "wfg" => some do
      let i ← nat; let k ← nat; let m ← nat; let z ← list flt
      let o : WOps Float := { floor := Float.floor, ceil := Float.ceil, abs := Float.abs, le := fun a b => a ≤ b, eps := 1e-10 }
      pure ("o " ++ showFs (match i with
        | 1 => wfg1 trigF o k m z | 2 => wfg23 trigF o k m z false | 3 => wfg23 trigF o k m z true
        | 4 => wfg4 trigF o k m z | 5 => wfg5 trigF o k m z | 6 => wfg6 trigF o k m z
        | 7 => wfg7 trigF o k m z | 8 => wfg8 trigF o k m z | _ => wfg9 trigF o k m z))
  | "uf" => some do
      let i ← nat; let x ← list flt
      let o : WOps Float := { floor := Float.floor, ceil := Float.ceil, abs := Float.abs, le := fun a b => a ≤ b, eps := 1e-10 }
      pure ("o " ++ showFs (match i with
        | 1 => uf1 trigF x | 2 => uf2 trigF x | 3 => uf3 trigF x | 4 => uf4 trigF o x | 5 => uf5 trigF o x
        | 6 => uf6 trigF o x | 7 => uf7 trigF x | 8 => uf8 trigF x | 9 => uf9 trigF o x | _ => uf10 trigF x))
  | "cf" => some do
      let i ← nat; let x ← list flt
      let o : WOps Float := { floor := Float.floor, ceil := Float.ceil, abs := Float.abs, le := fun a b => a ≤ b, eps := 1e-10 }
      pure ("o " ++ showFs (match i with
        | 1 => cf1 trigF o x | 2 => cf2 trigF o x | 3 => cf3 trigF x | 4 => cf4 trigF o x | 5 => cf5 trigF o x
        | 6 => cf6 trigF o x | 7 => cf7 trigF o x | 8 => cf8 trigF o x | 9 => cf9 trigF o x | _ => cf10 trigF o x))
  | "ufrot" => some do
      -- UF11 / UF12: rotation tables are data supplied by the caller
      let d3 ← bool; let m ← nat; let M ← list (list flt); let lam ← list flt; let x ← list flt
      pure ("o " ++ showFs (ufRot trigF pySumF d3 M lam m x))
  | "dtlz" => some do
      let k ← nat; let m ← nat; let x ← list flt
      pure ("o " ++ showFs (match k with
        | 1 => dtlz1 trigF m x | 2 => dtlz2 trigF m x | 3 => dtlz3 trigF m x
        | 4 => dtlz4 trigF m 100.0 x | _ => dtlz7 trigF m x))
  | _ => none

def dispatch (op : String) (args : List String) : Except String String :=
  match (opsGray op <|> opsDominance op <|> opsConstraint op <|> opsEps op <|> opsSorting op <|> opsGrid op <|> opsRun op <|> opsSurvival op <|> opsMachine op <|> OpsOperators.opsOperators op <|> opsParallel op <|> opsIndicators op <|> opsLinAlg op <|> opsCodec op <|> opsProblems op) with
  | some p => Wire.run p args
  | none => .error "bad-op"

end Ops
