import Driver.Wire
import PlatypusModel.Model.Gray
open Wire Platypus

namespace Ops

def opsGray (op : String) : Option (P String) :=
  match op with
  | "int2bin" => some do let n ← nat; let k ← nat; pure (showBits (int2bin n k))
  | "bin2int" => some do let b ← bits; pure (toString (bin2int b))
  | "bin2gray" => some do let b ← bits; pure (showBits (bin2gray b))
  | "gray2bin" => some do
      let b ← bits
      pure (match gray2bin b with | some r => showBits r | none => "err:index")
  | "nbits" => some do
      let w ← nat
      pure (match nbits? w with | some r => toString r | none => "err:domain")
  | "encode" => some do let w ← nat; let v ← nat; pure (showBits (encode w v))
  | "decode" => some do
      let w ← nat; let b ← bits
      pure (match decode w b with | some r => toString r | none => "err:index")
  | _ => none

def dispatch (op : String) (args : List String) : Except String String :=
  match opsGray op with
  | some p => Wire.run p args
  | none => .error "bad-op"

end Ops
