import PlatypusModel.Model.Gray
import PlatypusModel.Model.Dominance
/-! Wire codecs for the line protocol (tokens separated by single spaces). -/
namespace Wire

abbrev P := StateT (List String) (Except String)

def tok : P String := do
  match (← get) with
  | [] => throw "bad-op"
  | t :: ts => set ts; pure t

def done : P Unit := do
  match (← get) with
  | [] => pure ()
  | _ => throw "bad-op"

def nat : P Nat := do
  match (← tok).toNat? with
  | some n => pure n
  | none => throw "bad-op"

def int : P Int := do
  match (← tok).toInt? with
  | some n => pure n
  | none => throw "bad-op"

def bool : P Bool := do
  match (← tok) with
  | "0" => pure false
  | "1" => pure true
  | _ => throw "bad-op"

/-- bit strings: "-" is the empty list, otherwise a string over {0,1} -/
def bits : P (List Bool) := do
  let t ← tok
  if t == "-" then pure [] else
  t.toList.mapM fun c => if c == '0' then pure false else if c == '1' then pure true else throw "bad-op"

def showBits (b : List Bool) : String :=
  if b.isEmpty then "-" else String.ofList (b.map fun x => if x then '1' else '0')

/-- length-prefixed list -/
def list {α} (p : P α) : P (List α) := do
  let n ← nat
  (List.range n).mapM fun _ => p

def flt : P Float := do
  match (← tok).toNat? with
  | some n => pure (Float.ofBits n.toUInt64)
  | none => throw "bad-op"

def showFlt (x : Float) : String := toString x.toBits.toNat

def showList {α} (f : α → String) (l : List α) : String :=
  " ".intercalate (toString l.length :: l.map f)

def run {α} (p : P α) (toks : List String) : Except String α :=
  match p.run toks with
  | .ok (a, []) => .ok a
  | .ok (_, _) => .error "bad-op"
  | .error e => .error e

end Wire

namespace Wire
open Platypus

def rat : P Rat := do
  let t ← tok
  match t.splitOn "/" with
  | [n] => match n.toInt? with
    | some i => pure (i : Rat)
    | none => throw "bad-op"
  | [n, d] => match n.toInt?, d.toNat? with
    | some i, some k => if k = 0 then throw "bad-op" else pure (mkRat i k)
    | _, _ => throw "bad-op"
  | _ => throw "bad-op"

def showRat (q : Rat) : String :=
  if q.den = 1 then toString q.num else s!"{q.num}/{q.den}"

end Wire

namespace Wire
open Platypus

def erat : P ERat := do
  let st ← get
  match st with
  | "inf" :: ts => set ts; pure ERat.pinf
  | "-inf" :: ts => set ts; pure ERat.ninf
  | _ => do let q ← rat; pure (ERat.fin q)

def showERat : ERat → String
  | .ninf => "-inf"
  | .pinf => "inf"
  | .fin q => showRat q

/-- `id cv n o1 … on` -/
def solE : P (Sol ERat) := do
  let id ← nat; let cv ← erat; let objs ← list erat
  pure { id := id, objs := objs, cv := cv }

def showIds (l : List Nat) : String :=
  if l.isEmpty then "-" else ",".intercalate (l.map toString)

end Wire
