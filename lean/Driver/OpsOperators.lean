import Driver.Wire
import PlatypusModel.Model.OperatorsFloat
/-! Driver ops for the variation operators (C06): parse an operator expression, declared types, parents
and the recorded draw tape; run the model; print the offspring. -/
open Wire Platypus

namespace OpsOperators

abbrev F := Float

def typeD : P (TypeD F) := do
  match (← tok) with
  | "r" => do let lo ← flt; let hi ← flt; pure (.real lo hi)
  | "b" => do let n ← nat; pure (.binary n)
  | "p" => do let n ← nat; pure (.perm n)
  | "s" => do let n ← nat; let k ← nat; pure (.subset n k)
  | _ => throw "bad-op"

def varOf : TypeD F → P (Var F)
  | .real _ _ => do let x ← flt; pure (.real x)
  | .binary _ => do let b ← bits; pure (.bits b)
  | .perm _ => do let p ← list nat; pure (.perm p)
  | .subset _ _ => do let s ← list nat; pure (.subset s)

def osol (types : List (TypeD F)) : P (OSol F) := do
  let ev ← bool
  let vars ← types.mapM varOf
  pure { vars := vars, evaluated := ev }

def draw : P (Draw F) := do
  match (← tok) with
  | "u" => do let a ← flt; let b ← flt; let v ← flt; pure (.uniform a b v)
  | "g" => do let m ← flt; let s ← flt; let v ← flt; pure (.gauss m s v)
  | "r" => do let n ← nat; let k ← nat; pure (.randrange n k)
  | "b" => do let b ← bool; pure (.bit b)
  | _ => throw "bad-op"

def showVar : Var F → String
  | .real x => "r" ++ showFlt x
  | .bits b => "b" ++ showBits b
  | .perm p => "p" ++ showIds p
  | .subset s => "s" ++ showIds s

def showSol (s : OSol F) : String :=
  s!"{if s.evaluated then 1 else 0}|" ++ ";".intercalate (s.vars.map showVar)

def reals (s : OSol F) : List F := s.vars.filterMap fun | .real x => some x | _ => none

def nReal (types : List (TypeD F)) : Nat := (types.filter fun | .real _ _ => true | _ => false).length
def nBits (types : List (TypeD F)) : Nat := (types.map fun | .binary n => n | _ => 0).sum

def mut1 (f : OSol F → M F (OSol F)) : Oper F :=
  { arity := 1, evolve := fun ps tape => match ps with
      | [p] => do let (c, tape) ← f p tape; pure ([c], tape)
      | _ => .error .arity }

def two (f : OSol F → OSol F → M F (List (OSol F))) : Oper F :=
  { arity := 2, evolve := fun ps tape => match ps with
      | [a, b] => f a b tape
      | _ => .error .arity }

def swapLast (l : List (OSol F)) (i : Nat) : List (OSol F) :=
  let n := l.length
  if h : i < n ∧ 0 < n then
    let a := l[i]'h.1
    let z := l[n - 1]'(by omega)
    (l.set i z).set (n - 1) a
  else l

/-- multi-parent operators: children are copies of the last parent with every variable rewritten -/
def multi (arity nOff : Nat) (reorder : Bool) (k : List (List F) → M F (List F)) (types : List (TypeD F)) : Oper F :=
  { arity := arity, evolve := fun ps tape => do
      let step := fun (st : List (OSol F) × List (OSol F) × Tape F) (_ : Nat) => do
        let (ps, acc, tape) := st
        let (ps, tape) ← if reorder then do
            let (i, tape) ← popRandrange ps.length tape
            pure (swapLast ps i, tape)
          else pure (ps, tape)
        let (c, tape) ← multiParentChild k types (ps.map reals) tape
        pure (ps, acc ++ [c], tape)
      let (_, acc, tape) ← (List.range nOff).foldlM step (ps, [], tape)
      pure (acc, tape) }

partial def operExpr (types : List (TypeD F)) : P (Oper F) := do
  match (← tok) with
  | "PM" => do
      let p ← flt; let isInt ← bool; let di ← flt
      pure (mut1 fun s tape =>
        if isInt && nReal types == 0 then .error .zerodiv else
        let p' := if isInt then p / Float.ofNat (nReal types) else p
        mutationOp 0.0 1.0 p' true (FK.pmKernel di) types s tape)
  | "UM" => do
      let p ← flt; let isInt ← bool
      pure (mut1 fun s tape =>
        if isInt && nReal types == 0 then .error .zerodiv else
        mutationOp 0.0 1.0 p false FK.umKernel types s tape)
  | "UniformMutation" => do
      let p ← flt; let pert ← flt
      pure (mut1 fun s tape => do
        let ((vars, ev), tape) ← mutateAll 0.0 1.0 p (FK.uniformMutKernel pert) types s.vars s.evaluated tape
        pure ({ vars := vars, evaluated := ev }, tape))
  | "NonUniformMutation" => do
      let p ← flt; let pert ← flt; let nfe ← flt; let swarm ← flt; let maxIter ← flt
      pure (mut1 fun s tape => do
        let ((vars, ev), tape) ← mutateAll 0.0 1.0 p (FK.nonUniformKernel pert nfe swarm maxIter) types s.vars s.evaluated tape
        pure ({ vars := vars, evaluated := ev }, tape))
  | "SBX" => do
      let p ← flt; let di ← flt; let fixed ← bool
      let gap : F → F → F := if fixed then fun a b => (b - a).abs else fun a b => b - a
      pure (two (sbxOp 0.0 1.0 0.5 FK.EPS p gap (FK.sbxKernel di) types))
  | "DE" => do
      let cr ← flt; let f ← flt
      pure { arity := 4, evolve := fun ps tape => match ps with
        | [a, b, c, d] => deOp 0.0 1.0 cr (FK.deKernel f) types a b c d tape
        | _ => .error .arity }
  | "PCX" => do
      let np ← nat; let no ← nat; let eta ← flt; let zeta ← flt
      pure (multi np no true (FK.pcxKernel zeta eta types.length) types)
  | "UNDX" => do
      let np ← nat; let no ← nat; let zeta ← flt; let eta ← flt
      pure (multi np no false (FK.undxKernel zeta eta types.length) types)
  | "SPX" => do
      let np ← nat; let no ← nat; let ex ← flt
      pure (multi np no false (fun xs => FK.spxChild (FK.spxExpand ex xs types.length) types.length) types)
  | "BitFlip" => do
      let p ← flt; let isInt ← bool
      pure (mut1 fun s tape =>
        if isInt && nBits types == 0 then .error .zerodiv else
        let p' := if isInt then p / Float.ofNat (nBits types) else p
        bitFlipOp 0.0 1.0 p' types s tape)
  | "HUX" => do let p ← flt; pure (two (huxOp 0.0 1.0 p types))
  | "Swap" => do let p ← flt; pure (mut1 (permMutOp 0.0 1.0 p swapAt types))
  | "Insertion" => do let p ← flt; pure (mut1 (permMutOp 0.0 1.0 p insertAt types))
  | "PMX" => do let p ← flt; pure (two (pmxOp 0.0 1.0 p types))
  | "Replace" => do let p ← flt; pure (mut1 (replaceOp 0.0 1.0 p types))
  | "SSX" => do let p ← flt; pure (two (ssxOp 0.0 1.0 0.5 p types))
  | "GAOperator" => do
      let v ← operExpr types; let m ← operExpr types
      pure (gaOperator v (fun s tape => do
        let (r, tape) ← m.evolve [s] tape
        match r with | [c] => pure (c, tape) | _ => .error .arity))
  | "CompoundMutation" => do
      let n ← nat
      let ms ← (List.range n).mapM fun _ => operExpr types
      pure (mut1 (compoundMutation (ms.map fun m => fun s tape => do
        let (r, tape) ← m.evolve [s] tape
        match r with | [c] => pure (c, tape) | _ => .error .arity)))
  | "CompoundOperator" => do
      let n ← nat
      let vs ← (List.range n).mapM fun _ => operExpr types
      pure (compoundOperator vs)
  | _ => throw "bad-op"

def showErr : OpErr → String
  | .tape => "err:tape" | .zerodiv => "err:zerodiv" | .domain => "err:domain" | .index => "err:index"
  | .platypus => "err:platypus" | .arity => "err:arity" | .fuel => "err:fuel"

/-- `[counts[i] / float(sum(counts)) for i in ...]` -/
def mmNewProbs (counts : List Nat) : List F := mmProbs Float.ofNat counts
/-- `[1.0 / len(variators) for _ in ...]` -/
def mmInitProbs (n : Nat) : List F := mmInitProbsG 1.0 Float.ofNat n
def showMM (st : MMState F) : String :=
  s!"{st.next} {st.lastUpdate} {st.probs.length} {" ".intercalate (st.probs.map showFlt)}"

def opsOperators (op : String) : Option (P String) :=
  match op with
  | "oper" => some do
      let types ← list typeD
      let o ← operExpr types
      let parents ← list (osol types)
      let tape ← list draw
      match o.evolve parents tape with
      | .error e => pure (showErr e)
      | .ok (kids, rest) => pure s!"ok {o.arity} {rest.length} {" ".intercalate (kids.map showSol)}"
  | "mminit" => some do
      let n ← nat; let freq ← nat
      let counts ← list nat
      let tape ← list draw
      match multimethodInit (0.0 : F) pySumF mmNewProbs mmInitProbs n freq counts tape with
      | .error e => pure (showErr e)
      | .ok (st, rest) => pure s!"ok {rest.length} {showMM st}"
  | "mm" => some do
      let types ← list typeD
      let n ← nat
      let vs ← (List.range n).mapM fun _ => operExpr types
      let nx ← nat; let lu ← nat; let freq ← nat
      let probs ← list flt
      let counts ← list nat
      let parents ← list (osol types)
      let tape ← list draw
      let st : MMState F := { next := nx, lastUpdate := lu, freq := freq, probs := probs }
      match multimethodEvolve (0.0 : F) pySumF mmNewProbs vs counts st parents tape with
      | .error e => pure (showErr e)
      | .ok (((kids, tag), st'), rest) =>
        pure s!"ok {rest.length} {tag} {multimethodArity vs st'} {showMM st'} | {" ".intercalate (kids.map showSol)}"
  | _ => none

end OpsOperators
